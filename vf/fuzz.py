"""Coverage-guided fuzzing stage (atheris / libFuzzer) with the semantic oracle inside the target.

usage: python -m vf.fuzz <PID> <target> <outdir> [libFuzzer flags...]
The target function takes bytes and returns a list of discrepancies; the first non-empty result
is written to <outdir>/finding.json and the process exits (exit code 77)."""

import json
import os
import sys

from vf import harness  # noqa: F401  (puts VERIF_REPO on sys.path)


def main():
    pid, target_name, outdir = sys.argv[1:4]
    flags = sys.argv[4:]
    import atheris

    with atheris.instrument_imports(include=["ceos_alos2"]):
        import ceos_alos2  # noqa: F401
        import ceos_alos2.decoders  # noqa: F401
        import ceos_alos2.summary  # noqa: F401
    from vf import runner

    prop = runner.load_prop(pid)
    target = prop.FUZZ_TARGETS[target_name]
    counter = {"n": 0, "judged": 0}
    os.makedirs(outdir, exist_ok=True)

    def flush():
        with open(os.path.join(outdir, "count.json"), "w") as f:
            json.dump(counter, f)

    def test_one_input(data):
        counter["n"] += 1
        discs, judged = target(data)
        counter["judged"] += int(judged)
        if counter["n"] % 2000 == 0:
            flush()
        if discs:
            flush()
            with open(os.path.join(outdir, "finding.json"), "w") as f:
                json.dump({"data": data.hex(), "discrepancies": discs}, f, default=repr)
            os._exit(77)

    atheris.Setup([sys.argv[0], *flags], test_one_input)
    try:
        atheris.Fuzz()
    finally:
        flush()


if __name__ == "__main__":
    main()
