"""a read-only bytes-like object of any size made of a few extents; everything else is zero"""
import bisect


class SparseBytes:
    def __init__(self, size, extents):
        self.size = size
        self.extents = sorted(extents)
        self.starts = [o for o, _ in self.extents]
        for (o, b), (o2, _) in zip(self.extents, self.extents[1:]):
            assert o + len(b) <= o2, "extents overlap"
        assert not self.extents or self.extents[-1][0] + len(self.extents[-1][1]) <= size

    def __len__(self):
        return self.size

    def __bytes__(self):
        if self.size > 1 << 31:
            raise MemoryError("a sparse file of this size is not meant to be materialised")
        return self[0: self.size]

    def __getitem__(self, key):
        if not isinstance(key, slice):
            raise TypeError("SparseBytes supports slices only")
        start, stop, step = key.indices(self.size)
        assert step == 1
        n = max(0, stop - start)
        out = bytearray(n)
        i = max(0, bisect.bisect_right(self.starts, start) - 1)
        while i < len(self.extents) and self.extents[i][0] < stop:
            o, b = self.extents[i]
            lo, hi = max(o, start), min(o + len(b), stop)
            if lo < hi:
                out[lo - start: hi - start] = b[lo - o: hi - o]
            i += 1
        return bytes(out)
