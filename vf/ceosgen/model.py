"""Expected tree (reference model) computed from the values that ceosgen wrote.

Nothing here imports ceos_alos2.  The *exposure* of leader / volume fields (which output leaf a
field feeds, and at which element index) comes from the frozen tables layout/exposure_*.json; the
*conversion* of the written text / integer into the expected value is stated here by hand.
"""

import datetime as dt
import functools
import json
import math
import re

import numpy as np

from vf.ceosgen import layout

REL_TOL = 1e-12


# ---------------------------------------------------------------------------------------------
# exposure tables
# ---------------------------------------------------------------------------------------------


@functools.lru_cache(maxsize=None)
def exposure(name):
    doc = json.loads((layout.LAYOUT_DIR / f"exposure_{name}.json").read_text())
    (table,) = doc.values()
    return table


def generic(path):
    return "/".join("*" if p.isdigit() else p for p in path.split("/"))


def path_indices(path):
    return [int(p) for p in path.split("/") if p.isdigit()]


def resolve_index(sym, pidx):
    if sym is None:
        return None
    out = []
    for s in sym:
        if isinstance(s, str) and s.startswith("$"):
            out.append(pidx[int(s[1:])])
        else:
            out.append(s)
    return tuple(out)


# ---------------------------------------------------------------------------------------------
# conversions (the documented meaning of the written bytes)
# ---------------------------------------------------------------------------------------------


def text_of(value):
    if isinstance(value, (bytes, bytearray)):
        return value.decode("ascii")
    return value


def clean(text):
    """text field as exposed: padding removed (blanks on both sides, or trailing NULs)"""
    return text.rstrip("\0").strip()


def conv_float(text, factor=None):
    t = text.strip()
    if not t:
        return math.nan
    v = float(t)
    return v * factor if factor is not None else v


def conv_int(text):
    t = text.strip()
    if not t:
        return -1
    return int(t)


def convert(leaf):
    """documented value of a written field (before any record specific override)"""
    codec, node = leaf.codec, leaf.node
    factor = node.get("factor")
    enum = node.get("enum")
    if codec == "A-float":
        return conv_float(text_of(leaf.value), factor)
    if codec == "A-int":
        v = conv_int(text_of(leaf.value))
        if enum is not None:
            labels = {code: label for label, code in enum.items()}
            return labels.get(v, v)
        return v
    if codec == "A-str":
        v = clean(text_of(leaf.value))
        if enum is not None:
            labels = {str(code): label for label, code in enum.items()}
            if v in labels:
                return labels[v]
            return int(v)  # the format only allows the table's codes; anything else is out of domain
        return v
    if codec == "A-complex":
        t = text_of(leaf.value)
        h = len(t) // 2
        return complex(conv_float(t[:h]), conv_float(t[h:]))
    if codec in layout.BIN_FMT:
        v = leaf.value
        if node.get("flag"):
            return bool(v)
        if enum is not None:
            labels = {code: label for label, code in enum.items()}
            return labels.get(v, v)
        if factor is not None:
            return v * factor
        return v
    raise ValueError(f"no conversion for {codec}")


def parse_iso(text):
    return dt.datetime.fromisoformat(text)


def compact_to_datetime(text):
    """'YYYYMMDDhhmmss' + fractional digits -> datetime"""
    t = text.strip()
    base = dt.datetime.strptime(t[:14], "%Y%m%d%H%M%S")
    frac = t[14:]
    if frac:
        base += dt.timedelta(microseconds=int(frac.ljust(6, "0")[:6]))
    return base


BOOL_FIELDS = re.compile(
    r"^(attitude/data_points/\*/(attitude|rates)/(pitch|roll|yaw)_error"
    r"|platform_position/occurrence_flag_of_a_leap_second"
    r"|facility_related_data_5/prf_switching_flag)$"
)


class Expected:
    """expected leaves: attrs and variables assembled element by element"""

    def __init__(self):
        self.attrs = {}  # key -> (value, kind)   kind: exact | float | datetime | ...
        self.vars = {}  # key -> {index tuple: (value, scaled)}
        self.var_attrs = {}  # 'path#var@attr' -> value

    def set_attr(self, key, value, scaled=False, kind=None):
        self.attrs[key] = (value, scaled, kind)

    def set_elem(self, key, index, value, scaled=False, kind=None):
        self.vars.setdefault(key, {})[tuple(index)] = (value, scaled, kind)


def is_attr_key(key):
    return "@" in key and "#" not in key


def is_var_key(key):
    return "#" in key and "@" not in key.split("#", 1)[1] and not key.endswith("#")


def expected_from_table(leaves, table, prefix_filter=None, skip=lambda g: False):
    """generic part: every leaf with exactly the traced exposures, converted by `convert`"""
    exp = Expected()
    fields = table["fields"]
    for leaf in leaves:
        g = generic(leaf.path)
        entry = fields.get(g)
        if entry is None or not entry["exposures"] or skip(g):
            continue
        pidx = path_indices(leaf.path)
        for e in entry["exposures"]:
            key = e["key"]
            if prefix_filter and not prefix_filter(key):
                continue
            value = convert(leaf)
            if BOOL_FIELDS.match(g):
                value = bool(value)
            scaled = leaf.node.get("factor") is not None
            index = e.get("index")
            if isinstance(index, dict):  # influences many elements: handled by an override
                continue
            if is_attr_key(key):
                exp.set_attr(key, value, scaled)
            elif is_var_key(key):
                idx = resolve_index(index, pidx) if index is not None else ()
                exp.set_elem(key, idx, value, scaled)
                for ak, av in leaf.node.get("attrs", {}).items():
                    exp.var_attrs[f"{key}@{ak}"] = av
    return exp


# ---------------------------------------------------------------------------------------------
# comparison of expected leaves with an observed flattened tree
# ---------------------------------------------------------------------------------------------


def scalar_match(exp, obs, scaled, kind=None):
    """(ok, note)"""
    if kind == "datetime-iso":
        if not isinstance(obs, str):
            return False
        try:
            o = parse_iso(obs)
        except ValueError:
            return False
        return o == exp
    if isinstance(exp, bool) or isinstance(obs, (bool, np.bool_)):
        return isinstance(obs, (bool, np.bool_)) and isinstance(exp, bool) and bool(obs) == exp
    if isinstance(exp, str):
        return isinstance(obs, str) and str(obs) == exp
    if isinstance(exp, complex):
        if not isinstance(obs, (complex, np.complexfloating)):
            return False
        re_ok = float_match(exp.real, obs.real, scaled)
        im_ok = float_match(exp.imag, obs.imag, scaled)
        if math.isnan(exp.real) != math.isnan(exp.imag):
            # one of the two columns is blank: that half must be NaN; the written half may read as
            # written or be missing as well (x + 1j*nan), but is never another number
            re_ok = re_ok or math.isnan(obs.real)
            im_ok = im_ok or math.isnan(obs.imag)
        return re_ok and im_ok
    if isinstance(exp, float):
        if not isinstance(obs, (float, np.floating)):
            return False
        return float_match(exp, float(obs), scaled)
    if isinstance(exp, int):
        if isinstance(obs, (float, np.floating)) and scaled:
            return float_match(float(exp), float(obs), scaled)
        return isinstance(obs, (int, np.integer)) and not isinstance(obs, (bool, np.bool_)) and int(obs) == exp
    return exp == obs


def float_match(e, o, scaled):
    if math.isnan(e):
        return math.isnan(o)
    if math.isnan(o):
        return False
    if not scaled:
        return e == o
    if e == o:
        return True
    return abs(e - o) <= REL_TOL * max(abs(e), abs(o))


def element(values, idx):
    v = values[idx] if idx else values[()]
    if isinstance(v, np.generic):
        return v.item() if v.dtype.kind not in "Mm" else v
    return v


def delta_ns(observed, expected):
    """observed - expected in ns; "NaT" when either side is not a time (never raises)"""
    try:
        d = np.datetime64(observed, "ns") - np.datetime64(expected, "ns")
        if np.isnat(d):
            return "NaT"
        return int(d / np.timedelta64(1, "ns"))
    except (TypeError, ValueError, OverflowError):
        return "NaT"


def compare(exp, flat, disc, known_constant=None, frozen_dims=None):
    """compare Expected with the observed flat tree; returns (discrepancies, matched keys)"""
    out = []
    matched = set()
    for key, (value, scaled, kind) in exp.attrs.items():
        if key not in flat:
            out.append(disc("leaf-missing", key, value, None))
            continue
        matched.add(key)
        if not scalar_match(value, flat[key], scaled, kind):
            out.append(disc("value", key, value, flat[key]))
    for key, elems in exp.vars.items():
        leaf = flat.get(key)
        if leaf is None:
            out.append(disc("leaf-missing", key, f"variable with {len(elems)} elements", None))
            continue
        matched.add(key)
        if leaf.load_error:
            out.append(disc("exception", key, "loadable", leaf.load_error))
            continue
        ndim = len(next(iter(elems)))
        shape = tuple(max(i[d] for i in elems) + 1 for d in range(ndim))
        if tuple(leaf.shape) != shape or tuple(leaf.values.shape) != shape:
            out.append(disc("shape", key, shape, leaf.shape))
            continue
        if frozen_dims is not None and key in frozen_dims and tuple(frozen_dims[key]) != tuple(leaf.dims):
            out.append(disc("dims", key, tuple(frozen_dims[key]), leaf.dims))
        if len(elems) != int(np.prod(shape, dtype=int)):
            out.append(disc("model-incomplete", key, f"{int(np.prod(shape))} elements", len(elems)))
        if leaf.values.dtype.kind == "O":
            out.append(disc("dtype-opaque", key, "numeric/string dtype", leaf.values.dtype))
            continue
        for idx, (value, scaled, kind) in elems.items():
            obs = element(leaf.values, idx)
            if kind == "datetime64":
                ok = isinstance(obs, np.datetime64) and obs.astype("datetime64[ns]") == value
            else:
                ok = scalar_match(value, obs, scaled, kind)
            if not ok:
                ctx = {"index": list(idx)}
                if kind == "datetime64" and isinstance(obs, np.datetime64):
                    ctx["delta_ns"] = delta_ns(obs, value)
                    # report every element whose offset differs from the first one as well
                    deltas = {delta_ns(element(leaf.values, i), v[0]) for i, v in elems.items()}
                    ctx["all_deltas_ns"] = sorted(deltas, key=str)
                out.append(disc("value", key, value, obs, **ctx))
                break
    for key, value in exp.var_attrs.items():
        if key not in flat:
            out.append(disc("leaf-missing", key, value, None))
            continue
        matched.add(key)
        if flat[key] != value or type(flat[key]) is not type(value):
            out.append(disc("unit-or-attr", key, value, flat[key]))
    return out, matched


def base_value_equal(frozen, observed):
    """frozen = jsonable() output of the bootstrap; observed = flat leaf"""
    if isinstance(frozen, dict) and "dims" in frozen and hasattr(observed, "dims"):
        if list(observed.dims) != frozen["dims"] or list(observed.shape) != frozen["shape"]:
            return False
        if frozen["values"] is None or observed.values is None:
            return True
        obs = observed.values
        if obs.dtype.kind in "Mm":
            return obs.astype(str).tolist() == frozen["values"]
        return _json_equal(obs.tolist(), frozen["values"])
    if isinstance(frozen, dict) and "__tuple__" in frozen:
        return isinstance(observed, tuple) and _json_equal(list(observed), frozen["__tuple__"])
    return _json_equal(observed, frozen)


def _json_equal(a, b):
    if isinstance(b, dict) and "__complex__" in b:
        return isinstance(a, complex) and [a.real, a.imag] == b["__complex__"]
    if isinstance(a, (list, tuple)) and isinstance(b, list):
        return len(a) == len(b) and all(_json_equal(x, y) for x, y in zip(a, b))
    if isinstance(a, float) and isinstance(b, float) and math.isnan(a) and math.isnan(b):
        return True
    if isinstance(a, np.generic):
        a = a.item()
    return a == b


# ---------------------------------------------------------------------------------------------
# SAR leader
# ---------------------------------------------------------------------------------------------

LEADER_OVERRIDDEN = {
    "dataset_summary/scene_center_time",
    "platform_position/datetime_of_first_point/date",
    "platform_position/datetime_of_first_point/day_of_year",
    "platform_position/datetime_of_first_point/seconds_of_day",
    "attitude/data_points/*/time/day_of_year",
    "attitude/data_points/*/time/millisecond_of_day",
}


def leader_table(params):
    return exposure(params["designator"].split("-")[0].lower())


def first_point_datetime(values):
    date = text_of(values["platform_position/datetime_of_first_point/date"])
    y, m, d = (int(p) for p in date.split())
    seconds = float(text_of(values["platform_position/datetime_of_first_point/seconds_of_day"]))
    return dt.datetime(y, m, d) + dt.timedelta(seconds=seconds), y


def expected_leader(leaves, params):
    table = leader_table(params)
    has_map = bool(params["map_projection"])

    def skip(g):
        return g in LEADER_OVERRIDDEN or (not has_map and g.startswith("map_projection/"))

    exp = expected_from_table(leaves, table, skip=skip)
    values = {leaf.path: leaf.value for leaf in leaves}
    exp.set_attr(
        "/metadata/dataset_summary@scene_center_time",
        compact_to_datetime(text_of(values["dataset_summary/scene_center_time"])),
        kind="datetime-iso",
    )
    first, year = first_point_datetime(values)
    exp.set_attr("/metadata/platform_position@datetime_of_first_point", first, kind="datetime-iso")
    n_att = int(text_of(values["attitude/number_of_points"]))
    for i in range(n_att):
        doy = int(text_of(values[f"attitude/data_points/{i}/time/day_of_year"]))
        ms = int(text_of(values[f"attitude/data_points/{i}/time/millisecond_of_day"]))
        # day-of-year 1 is 1 January (the convention of the line records)
        instant = np.datetime64(f"{year:04d}-01-01", "ns") + np.timedelta64(doy - 1, "D") + np.timedelta64(ms, "ms")
        for sub in ("attitude", "rates"):
            exp.set_elem(f"/metadata/attitude/{sub}#time", (i,), instant, kind="datetime64")
    return exp, table


def check_against_table(exp, flat, table, disc, prefix, absent_prefixes=()):
    """model comparison + judgement of every other leaf under `prefix`"""
    base = table["base"]
    frozen_dims = {k: v["dims"] for k, v in base.items() if isinstance(v, dict) and "dims" in v}
    out, matched = compare(exp, flat, disc, frozen_dims=frozen_dims)
    field_keys = set()
    for entry in table["fields"].values():
        for e in entry["exposures"]:
            field_keys.add(e["key"])
        for var in entry.get("variants", []):
            for e in var["exposures"]:
                field_keys.add(e["key"])

    def absent(key):
        return any(key.startswith(p) for p in absent_prefixes)

    for key, value in flat.items():
        if not key.startswith(prefix) or key in matched:
            continue
        if absent(key):
            out.append(disc("leaf-unexpected", key, "absent (record not in the file)", value))
            continue
        if key.endswith("/") or key.endswith("#"):
            if key not in base:
                out.append(disc("leaf-unexpected", key, None, value))
                continue
            want = [c for c in base[key] if not absent(f"{key}{c}/") and not absent(f"{key.rstrip('#')}#{c}")]
            if key.endswith("#"):
                want = [c for c in base[key] if not absent(key + c)]
            # membership only: the order of variables / record groups is not part of C04 / C16
            if sorted(value) != sorted(want):
                out.append(disc("structure", key, sorted(want), sorted(value)))
            continue
        if key in field_keys or (key.split("@")[0] in field_keys and "#" in key):
            if key in field_keys:
                out.append(disc("model-gap", key, "a modelled leaf", value))
            elif key not in base:
                out.append(disc("leaf-unexpected", key, None, value))
            elif not base_value_equal(base[key], value):
                out.append(disc("unit-or-attr", key, base[key], value))
            continue
        if key not in base:
            out.append(disc("leaf-unexpected", key, "no such leaf in the reference structure", value))
            continue
        # a constant of the reference structure (coordinate labels, documentation strings)
        if "#" in key and "@" not in key.split("#", 1)[1]:
            if not base_value_equal(base[key], value):
                out.append(disc("constant-variable", key, base[key], value))
    # leaves of the reference structure that are missing from the observed tree
    for key in base:
        if key.startswith(prefix) and key not in flat and not absent(key):
            out.append(disc("leaf-missing", key, base[key], None))
    return out


# ---------------------------------------------------------------------------------------------
# volume directory -> root attributes
# ---------------------------------------------------------------------------------------------

REFERENCE_DOCUMENT_KEY = "/@reference_document"


def expected_volume(leaves):
    table = exposure("volume")
    exp = expected_from_table(
        leaves, table, skip=lambda g: g == "volume_descriptor/logical_volume_creation_datetime"
    )
    values = {leaf.path: leaf.value for leaf in leaves}
    exp.set_attr(
        "/@creation_datetime",
        compact_to_datetime(text_of(values["volume_descriptor/logical_volume_creation_datetime"])),
        kind="datetime-iso",
    )
    return exp, table


def check_root_attrs(leaves, flat, disc):
    """root attributes == volume directory attributes + the reference-document link"""
    exp, table = expected_volume(leaves)
    out, matched = compare(exp, flat, disc)
    for key, value in flat.items():
        if not key.startswith("/@") or key in matched:
            continue
        if key == REFERENCE_DOCUMENT_KEY:
            if not (isinstance(value, str) and value.startswith("http")):
                out.append(disc("value", key, "a link (str)", value))
            continue
        out.append(disc("leaf-unexpected", key, "no such root attribute", value))
    if REFERENCE_DOCUMENT_KEY not in flat:
        out.append(disc("leaf-missing", REFERENCE_DOCUMENT_KEY, "reference document link", None))
    return out


# ---------------------------------------------------------------------------------------------
# image groups (hand-stated exposure of the line records and of the image file descriptor)
# ---------------------------------------------------------------------------------------------

LINE_IGNORED = {
    "preamble",
    "record_start",
    "actual_count_of_left_fill_pixels",
    "actual_count_of_right_fill_pixels",
    "actual_count_of_data_pixels",
    "alos2_frame_number",
    "palsar_auxiliary_data",
    "data",
}
LINE_CONSTANTS = {
    "sar_image_data_record_index",
    "sensor_parameters_update_flag",
    "scan_id",
    "sar_channel_code",
    "sar_channel_id",
    "onboard_range_compressed_flag",
    "chirp_type_designator",
    "platform_position_parameters_update_flag",
    "geographic_reference_parameter_update_flag",
    "transmitted_pulse_polarization",
    "received_pulse_polarization",
}
LINE_RENAMES = {"sar_image_data_line_number": "rows"}
NESTED_L11 = {
    "elevation_angle_at_nadir_of_antenna",
    "antenna_squint_angle",
    "platform_velocity",
    "platform_acceleration",
    "platform_attitude",
}
HEADER_ATTRS = {
    "sar_related_data_in_the_record/interleaving_id": "interleaving_id",
    "prefix_suffix_data_locators/maximum_data_range_of_pixel": "valid_range",
    "prefix_suffix_data_locators/number_of_burst_data": "number_of_burst_data",
    "prefix_suffix_data_locators/number_of_lines_per_burst": "number_of_lines_per_burst",
    "scansar_burst_data_information/number_of_overlap_lines_with_adjacent_bursts": "number_of_overlap_lines_with_adjacent_bursts",
}


def line_time(value):
    return (
        np.datetime64(f"{value['year']:04d}-01-01", "ns")
        + np.timedelta64(value["doy"] - 1, "D")
        + np.timedelta64(value["ms"], "ms")
    )


def expected_image(iinfo, gname):
    """returns (Expected, nested: {var: {sub: [(value, scaled, units)] per line}}, absent_ok keys)"""
    prefix = f"/imagery/{gname}"
    exp = Expected()
    nested = {}
    either = {}  # header attrs that may be absent or '' (blank text)
    absent = set()
    for leaf in iinfo["header_leaves"]:
        name = HEADER_ATTRS.get(leaf.path)
        if name is None:
            continue
        text = text_of(leaf.value)
        key = f"{prefix}@{name}"
        if not clean(text):
            if leaf.codec == "A-str":
                either[key] = ""
            else:
                absent.add(key)
            continue
        if name == "valid_range":
            exp.set_attr(key, [0, conv_int(text)], kind="int-list")
        elif leaf.codec == "A-str":
            exp.set_attr(key, clean(text))
        else:
            exp.set_attr(key, conv_int(text))
    for i, leaves in enumerate(iinfo["line_leaves"]):
        date_value = None
        for leaf in leaves:
            parts = leaf.path.split("/")
            top = parts[0].split("~")[0]
            if top in LINE_IGNORED or layout.is_padding_name(top):
                continue
            name = LINE_RENAMES.get(top, top)
            key = f"{prefix}#{name}"
            scaled = leaf.node.get("factor") is not None
            if top in LINE_CONSTANTS:
                if i == 0:
                    exp.set_attr(f"{prefix}@{name}", convert(leaf), scaled)
                continue
            if leaf.codec == "ydms":
                date_value = leaf.value
                exp.set_elem(key, (i,), line_time(leaf.value), kind="datetime64")
                continue
            if leaf.codec == "ydus":
                day = np.datetime64(f"{date_value['year']:04d}-01-01", "ns") + np.timedelta64(date_value["doy"] - 1, "D")
                exp.set_elem(key, (i,), day + np.timedelta64(leaf.value, "us"), kind="datetime64")
                continue
            if top in NESTED_L11:
                sub = parts[1]
                nested.setdefault(top, {}).setdefault(sub, []).append(
                    (convert(leaf), scaled, leaf.node.get("attrs", {}).get("units"))
                )
                continue
            exp.set_elem(key, (i,), convert(leaf), scaled)
            for ak, av in leaf.node.get("attrs", {}).items():
                exp.var_attrs[f"{key}@{ak}"] = av
    return exp, nested, either, absent


def check_image_group(iinfo, gname, flat, disc):
    prefix = f"/imagery/{gname}"
    exp, nested, either, absent = expected_image(iinfo, gname)
    # valid_range is a list attribute
    vr_key = f"{prefix}@valid_range"
    vr = exp.attrs.pop(vr_key, None)
    out, matched = compare(exp, flat, disc)
    if vr is not None:
        obs = flat.get(vr_key)
        matched.add(vr_key)
        if obs is None:
            out.append(disc("leaf-missing", vr_key, vr[0], None))
        elif not (isinstance(obs, (list, tuple)) and [int(v) for v in obs] == vr[0]):
            out.append(disc("value", vr_key, vr[0], obs))
    for key, value in either.items():
        if key in flat:
            matched.add(key)
            if flat[key] != value:
                out.append(disc("value", key, f"absent or {value!r}", flat[key]))
    for key in absent:
        if key in flat:
            matched.add(key)
            out.append(disc("fabricated-header-attribute", key, "absent (header field is blank)", flat[key]))
    # nested level-1.1 sub-structs: D8 shape (object array of dicts) or flattened variables found by content
    for var, subs in nested.items():
        key = f"{prefix}#{var}"
        leaf = flat.get(key)
        if leaf is not None and leaf.values is not None and leaf.values.dtype.kind == "O":
            matched.add(key)
            out.append(disc("d8-object-array", key, "numeric variables", "object array of dicts"))
            for sub, column in subs.items():
                for i, (value, scaled, units) in enumerate(column):
                    if i >= len(leaf.values):
                        out.append(disc("value", key, f"{len(column)} lines", f"{len(leaf.values)} lines"))
                        break
                    item = leaf.values[i]
                    ok = isinstance(item, dict) and sub in item and isinstance(item[sub], tuple)
                    if ok:
                        got, attrs = item[sub]
                        ok = scalar_match(value, got, scaled) and attrs.get("units") == units
                    if not ok:
                        out.append(disc("value", key, (sub, value, units), item, index=[i]))
                        break
        else:
            # located by content: any rows-variable of the group with these values and unit
            for sub, column in subs.items():
                found = False
                for k2, leaf2 in flat.items():
                    if not (k2.startswith(prefix + "#") and hasattr(leaf2, "dims")) or leaf2.dims != ("rows",):
                        continue
                    if leaf2.values is None or leaf2.values.dtype.kind not in "fiu" or len(leaf2.values) != len(column):
                        continue
                    if all(scalar_match(v, leaf2.values[i].item(), s) for i, (v, s, _u) in enumerate(column)) and flat.get(f"{k2}@units") == column[0][2]:
                        matched.add(k2)
                        matched.add(f"{k2}@units")
                        found = True
                        break
                if not found:
                    out.append(disc("leaf-missing", f"{key}/{sub}", "a rows variable with the written values", None))
    # every per-line variable is a coordinate of the image
    for key in exp.vars:
        leaf = flat.get(key)
        if leaf is not None and not leaf.is_coord:
            out.append(disc("not-a-coordinate", key, "coordinate", "data variable"))
    # anything else in the group
    data_key = f"{prefix}#data"
    for key, value in flat.items():
        if not (key.startswith(prefix + "@") or key.startswith(prefix + "#") or key == prefix + "/"):
            continue
        if key in matched or key == data_key or key == prefix + "#" or key == prefix + "/":
            continue
        if key.startswith(data_key + "@"):
            continue
        out.append(disc("leaf-unexpected", key, "not written in any record field", value))
    return out
