"""Build whole synthetic ALOS-2 CEOS products from a plain-dict spec (no ceos_alos2 import)."""

import datetime as dt
import random
import struct

from vf.ceosgen import layout, values as V

# --------------------------------------------------------------------------------------
# field classes (my statement of which fields the format requires to be filled)
# --------------------------------------------------------------------------------------

LEADER_REQUIRED = {
    # multiplicities / lengths read by the framing
    "file_descriptor/map_projection/number_of_records",
    "attitude/number_of_points",
    "data_quality_summary/number_of_channels",
    # date-time texts
    "dataset_summary/scene_center_time",
    "platform_position/datetime_of_first_point/date",
    "platform_position/datetime_of_first_point/day_of_year",
    "platform_position/datetime_of_first_point/seconds_of_day",
    "attitude/data_points/*/time/day_of_year",
    "attitude/data_points/*/time/millisecond_of_day",
    # a flag column
    "platform_position/occurrence_flag_of_a_leap_second",
    "facility_related_data_5/prf_switching_flag",
    # selects which projection block is exposed
    "map_projection/*/map_projection_designator",
}
VOLUME_REQUIRED = {
    "volume_descriptor/number_of_file_pointer_records",
    "volume_descriptor/logical_volume_creation_datetime",
}
IMAGE_DESCRIPTOR_REQUIRED = {
    "number_of_sar_data_records",
    "sar_data_record_length",
    "sar_related_data_in_the_record/number_of_lines_per_dataset",
    "sar_related_data_in_the_record/number_of_data_groups_per_line",
    "prefix_suffix_data_locators/sar_data_format_type_code",
}

PREFIX_LEN = {"signal_data_record": 544, "processed_data_record": 192}
RECORD_TYPE = {"signal_data_record": 10, "processed_data_record": 11}
TYPE_CODE = {"signal_data_record": "C*8", "processed_data_record": "IU2"}
SAMPLE_BYTES = {"C*8": 8, "IU2": 2}

LEADER_RECORD_LENGTHS = {
    "file_descriptor": 720,
    "dataset_summary": 4096,
    "map_projection": 1620,
    "platform_position": 4680,
    "attitude": 16384,
    "radiometric_data": 9860,
    "data_quality_summary": 1620,
    "facility_related_data_5": 5000,
}


UNKNOWN_CODES = True  # numeric enumerations are sometimes given a code outside their table


def last_name(path):
    parts = [p for p in path.split("/") if not p.isdigit()]
    return parts[-1] if parts else ""


def is_padding_path(path):
    return any(layout.is_padding_name(p.split("~")[0]) for p in path.split("/") if not p.isdigit())


def is_preamble(path):
    return "/preamble/" in f"/{path}"


FLAG_COLUMNS = __import__("re").compile(r"^attitude/data_points/\d+/(attitude|rates)/(pitch|roll|yaw)_error$")


def leaf_class(path, node, required=()):
    """value | padding | enum | flag | required | preamble | datetime"""
    if is_preamble(path):
        return "preamble"
    if FLAG_COLUMNS.match(path):
        return "flag"
    if is_padding_path(path):
        return "padding"
    generic = "/".join("*" if p.isdigit() else p for p in path.split("/"))
    if path in required or generic in required:
        return "required"
    if "enum" in node:
        return "enum"
    if node.get("flag"):
        return "flag"
    if node["c"] in ("ydms", "ydus"):
        return "datetime"
    return "value"


# --------------------------------------------------------------------------------------
# generic generator used as the Encoder's filler
# --------------------------------------------------------------------------------------


# record sub-type codes of the CEOS preamble (first subtype, type, second, third)
PREAMBLE_CODES = {
    ("sar_leader", "file_descriptor"): (11, 192, 18, 18),
    ("sar_leader", "dataset_summary"): (18, 10, 18, 20),
    ("sar_leader", "map_projection"): (18, 20, 18, 20),
    ("sar_leader", "platform_position"): (18, 30, 18, 20),
    ("sar_leader", "attitude"): (18, 40, 18, 20),
    ("sar_leader", "radiometric_data"): (18, 50, 18, 20),
    ("sar_leader", "data_quality_summary"): (18, 60, 18, 20),
    ("sar_leader", "facility_related_data_1"): (18, 200, 18, 70),
    ("sar_leader", "facility_related_data_2"): (18, 200, 18, 70),
    ("sar_leader", "facility_related_data_3"): (18, 200, 18, 70),
    ("sar_leader", "facility_related_data_4"): (18, 200, 18, 70),
    ("sar_leader", "facility_related_data_5"): (18, 200, 18, 70),
    ("volume_directory", "volume_descriptor"): (192, 192, 18, 18),
    ("volume_directory", "file_descriptors"): (219, 192, 18, 18),
    ("volume_directory", "text_record"): (18, 63, 18, 18),
    ("image_file_descriptor", ""): (50, 192, 18, 18),
    ("signal_data_record", ""): (50, 10, 18, 20),
    ("processed_data_record", ""): (50, 11, 18, 20),
    ("trailer_file_descriptor", ""): (63, 192, 18, 18),
}
LEADER_ORDER = [
    "file_descriptor", "dataset_summary", "map_projection", "platform_position", "attitude",
    "radiometric_data", "data_quality_summary", "facility_related_data_1",
    "facility_related_data_2", "facility_related_data_3", "facility_related_data_4",
    "facility_related_data_5",
]


def preamble_value(path, table):
    parts = path.split("/")
    top = parts[0] if parts[0] != "preamble" else ""
    field = parts[-1]
    codes = PREAMBLE_CODES.get((table, top), (18, 0, 18, 20))
    if field == "record_sequence_number":
        if table == "sar_leader":
            return LEADER_ORDER.index(top) + 1
        if table == "volume_directory":
            return {"volume_descriptor": 1, "text_record": 99}.get(top, 2 + (int(parts[1]) if len(parts) > 1 and parts[1].isdigit() else 0))
        return 1
    if field == "record_length":
        return 0
    return codes[["first_record_subtype", "record_type", "second_record_subtype", "third_record_subtype"].index(field)]


class Filler:
    """generate a value for every leaf that has no preset value

    policy: how spare / blank / reserved areas are filled ("blank" | "decoy")
    mode:   "random" -> generated values; "blank" -> value fields blank (spaces / zero)
    """

    def __init__(self, rng, policy="decoy", required=(), mode="random", enum_cycle=None, table=None):
        self.table = table
        self.rng = rng
        self.policy = policy
        self.required = required
        self.mode = mode
        self.enum_cycle = enum_cycle  # int: pick code number (cycle % n) for every enum
        self.unknown_codes = UNKNOWN_CODES

    def padding(self, node, width, codec):
        rng = self.rng
        if self.policy == "blank":
            return None
        if codec == "A-str":
            return V.filler_text(width, rng, rng.choice(["digits", "numbers", "printable"]))
        if codec in ("A-float", "A-int"):
            # numeric spare: any number (or blank)
            if rng.random() < 0.2:
                return " " * width
            return V.gen_int_text(width, rng)
        if codec in layout.BIN_FMT:
            return rng.randrange(layout.BIN_MAX[codec] + 1)
        if codec == "bytes":
            return bytes(rng.randrange(256) for _ in range(width))
        return None

    def __call__(self, path, node, width, codec):
        rng = self.rng
        cls = leaf_class(path, node, self.required)
        if cls == "padding":
            return self.padding(node, width, codec)
        if cls == "preamble":
            return preamble_value(path, self.table)
        if cls == "enum":
            codes = list(node["enum"].values())
            code = (
                codes[self.enum_cycle % len(codes)]
                if self.enum_cycle is not None
                else rng.choice(codes)
            )
            if self.enum_cycle is None and codec != "A-str" and self.unknown_codes and rng.randrange(8) == 0:
                # a code outside the table (a later format revision, a reserved value): numeric
                # enumerations pass such a number through unchanged
                limit = 10 ** (width - 1) if codec == "A-int" else min(layout.BIN_MAX.get(codec, 255), 10**6)
                extra = [c for c in {max(codes) + 1, max(codes) + 7, limit - 1, rng.randrange(0, limit)} if c not in codes and 0 <= c < limit]
                if extra:
                    code = rng.choice(sorted(extra))
            if codec == "A-int":
                return V.render_int(code, width, rng)
            if codec == "A-str":
                return V.pad(str(code), width, rng)
            return code
        if cls == "flag":
            if codec == "A-int":
                return V.render_int(rng.choice([0, 0, 1, 1, rng.randrange(10 ** (width - 1))]), width, rng)
            return rng.choice([0, 1, 1, layout.BIN_MAX[codec], rng.randrange(layout.BIN_MAX[codec] + 1)])
        if cls == "required":
            raise KeyError(f"required field {path} has no value")
        if cls == "datetime":
            raise KeyError(f"datetime field {path} has no value")
        if self.mode == "blank":
            return None
        if codec == "A-float":
            return V.gen_float_text(width, rng)
        if codec == "A-complex":
            return V.gen_float_text(width // 2, rng) + V.gen_float_text(width // 2, rng)
        if codec == "A-int":
            return V.gen_int_text(width, rng)
        if codec == "A-str":
            return V.gen_str_text(width, rng)
        if codec in layout.BIN_FMT:
            return V.gen_bin(layout.BIN_MAX[codec], rng)
        if codec == "bytes":
            return bytes(rng.randrange(256) for _ in range(width))
        raise ValueError(codec)


def doy_of(year, month, day):
    import datetime

    return (datetime.date(year, month, day) - datetime.date(year, 1, 1)).days + 1


def ymd_of(year, doy):
    import datetime

    d = datetime.date(year, 1, 1) + datetime.timedelta(days=doy - 1)
    return d.year, d.month, d.day


# --------------------------------------------------------------------------------------
# leader
# --------------------------------------------------------------------------------------

DESIGNATORS = ["UTM-PROJECTION", "UPS-PROJECTION", "LCC-PROJECTION", "MER-PROJECTION"]


def leader_presets(params, rng):
    """structural / required fields of a leader file from params

    params: n_att, att_len, n_channels, map_projection (bool), designator, facility_lengths (4),
            instant: {year, doy, ms, us}  (the product's reference instant)
    """
    v = {}
    p = params
    inst = p["instant"]
    year, month, day = ymd_of(inst["year"], inst["doy"])
    sec_of_day_ms = inst["ms"]
    hh, rem = divmod(sec_of_day_ms, 3600_000)
    mm, rem = divmod(rem, 60_000)
    ss, ms = divmod(rem, 1000)

    v["file_descriptor/map_projection/number_of_records"] = f"{1 if p['map_projection'] else 0:6d}"
    v["file_descriptor/map_projection/record_length"] = f"{1620:6d}"
    v["file_descriptor/attitude/record_length"] = f"{p['att_len']:6d}"
    for i, flen in enumerate(p["facility_lengths"], start=1):
        v[f"file_descriptor/facility_related_data_{i}/record_length"] = f"{flen:8d}"
        v[f"facility_related_data_{i}/preamble/record_length"] = flen
    for rec, length in LEADER_RECORD_LENGTHS.items():
        if rec == "attitude":
            length = p["att_len"]
        if rec == "map_projection":
            if p["map_projection"]:
                v["map_projection/0/preamble/record_length"] = length
            continue
        v[f"{rec}/preamble/record_length"] = length

    v["attitude/number_of_points"] = f"{p['n_att']:4d}"
    v["data_quality_summary/number_of_channels"] = f"{p['n_channels']:4d}"
    # fraction digits of the decimal-seconds texts (3 = milliseconds ... 6 = microseconds)
    digits = inst.get("frac_digits", 3)
    frac = f"{ms:03d}{inst.get('us', 0):03d}"[:digits]
    # the scene centre is some minutes after the first orbit point / attitude sample: with an
    # offset it may lie in the next day or year
    sc = dt.datetime(year, month, day, hh, mm, ss) + dt.timedelta(milliseconds=p.get("scene_center_offset_ms", 0))
    v["dataset_summary/scene_center_time"] = V.pad(
        f"{sc.year:04d}{sc.month:02d}{sc.day:02d}{sc.hour:02d}{sc.minute:02d}{sc.second:02d}{frac}", 32, rng, allow_left=False
    )
    # "YYYY MM DD": three I4 integers - zero-padded with separating blanks, or blank-padded
    if rng.randrange(3) == 0:
        v["platform_position/datetime_of_first_point/date"] = f"{year:4d}{month:4d}{day:4d}"
    else:
        v["platform_position/datetime_of_first_point/date"] = V.pad(f"{year:04d} {month:02d} {day:02d}", 12, rng)
    v["platform_position/datetime_of_first_point/day_of_year"] = f"{inst['doy']:4d}"
    # seconds of the day as decimal text (ms resolution keeps the float exact enough: see model)
    v["platform_position/datetime_of_first_point/seconds_of_day"] = V.pad(
        f"{sec_of_day_ms // 1000}.{frac}", 22, rng
    )
    v["platform_position/occurrence_flag_of_a_leap_second"] = str(rng.randrange(2))
    v["facility_related_data_5/prf_switching_flag"] = f"{rng.randrange(2):4d}"
    if p["map_projection"]:
        v["map_projection/0/map_projection_designator"] = V.pad(p["designator"], 32, rng, allow_left=False)
    # attitude point times: the reference instant, then increasing
    repeat_times = p.get("repeat_attitude_times")
    for i in range(p["n_att"]):
        doy = inst["doy"] if i == 0 else min(366, inst["doy"] + (i // 4))
        ms_i = inst["ms"] if i == 0 else rng.randrange(86_400_000)
        if repeat_times and i > 0 and i % 2:
            # two samples with the same time stamp (one slot per sample is all the format says)
            doy, ms_i = prev
        prev = (doy, ms_i)
        v[f"attitude/data_points/{i}/time/day_of_year"] = f"{doy:4d}"
        v[f"attitude/data_points/{i}/time/millisecond_of_day"] = f"{ms_i:8d}"
    return v


def default_leader_params(rng=None):
    return {
        "n_att": 3,
        "att_len": 16384,
        "n_channels": 2,
        "map_projection": False,
        "designator": "UTM-PROJECTION",
        "facility_lengths": [100, 66, 200, 300],
        "instant": {"year": 2014, "doy": 241, "ms": 45_296_789, "us": 123},
    }


def build_leader(params, rng, policy="decoy", overrides=None, mode="random", enum_cycle=None):
    presets = leader_presets(params, rng)
    if overrides:
        presets.update(overrides)
    filler = Filler(rng, policy, LEADER_REQUIRED, mode=mode, enum_cycle=enum_cycle, table="sar_leader")
    data, leaves = layout.encode("sar_leader", presets, filler)
    return data, leaves


# --------------------------------------------------------------------------------------
# volume directory
# --------------------------------------------------------------------------------------


def volume_presets(params, rng):
    v = {}
    inst = params["instant"]
    year, month, day = ymd_of(inst["year"], inst["doy"])
    hh, rem = divmod(inst["ms"], 3600_000)
    mm, rem = divmod(rem, 60_000)
    ss, ms = divmod(rem, 1000)
    hundredths = params.get("hundredths", ms // 10)
    v["volume_descriptor/number_of_file_pointer_records"] = f"{params['n_file_pointers']:4d}"
    v["volume_descriptor/logical_volume_creation_datetime"] = (
        f"{year:04d}{month:02d}{day:02d}{hh:02d}{mm:02d}{ss:02d}{hundredths:02d}"
    )
    v["volume_descriptor/preamble/record_length"] = 360
    v["text_record/preamble/record_length"] = 360
    for i in range(params["n_file_pointers"]):
        v[f"file_descriptors/{i}/preamble/record_length"] = 360
    return v


def build_volume(params, rng, policy="decoy", overrides=None, mode="random"):
    presets = volume_presets(params, rng)
    if overrides:
        presets.update(overrides)
    filler = Filler(rng, policy, VOLUME_REQUIRED, mode=mode, table="volume_directory")
    return layout.encode("volume_directory", presets, filler)


# --------------------------------------------------------------------------------------
# images
# --------------------------------------------------------------------------------------

# per-file constant columns of the line records (constant over the lines of one file)
LINE_CONSTANTS = {
    "sar_image_data_record_index",
    "sensor_parameters_update_flag",
    "scan_id",
    "sar_channel_code",
    "sar_channel_id",
    "onboard_range_compressed_flag",
    "chirp_type_designator",
    "platform_position_parameters_update_flag",
    "geographic_reference_parameter_update_flag",
    "transmitted_pulse_polarization",
    "received_pulse_polarization",
}
HEADER_OPTIONAL = [
    "sar_related_data_in_the_record/interleaving_id",
    "prefix_suffix_data_locators/maximum_data_range_of_pixel",
    "prefix_suffix_data_locators/number_of_burst_data",
    "prefix_suffix_data_locators/number_of_lines_per_burst",
    "scansar_burst_data_information/number_of_overlap_lines_with_adjacent_bursts",
]


def record_table(level):
    return "signal_data_record" if level == "1.1" else "processed_data_record"


def gen_raw_samples(n_bytes, rng, type_code, specials=True):
    """raw sample bytes: random with a sprinkling of special bit patterns"""
    if n_bytes > 2**27:
        # very large images: a random block of odd length repeated (lines still differ)
        block = rng.randbytes(2**20 + 7)
        return (block * (n_bytes // len(block) + 1))[:n_bytes]
    raw = bytearray(rng.randbytes(n_bytes))
    if not specials or n_bytes == 0:
        return bytes(raw)
    if type_code == "C*8":
        table = [
            0x7FC00000, 0x7FC00001, 0xFFC12345, 0x7F800001, 0x7FA00000,  # NaNs (quiet/signalling, payloads)
            0x7F800000, 0xFF800000, 0x00000000, 0x80000000, 0x00000001, 0x807FFFFF,  # inf, zeros, denormals
            0x3F800000, 0xBF800000,
        ]
        n_words = n_bytes // 4
        for _ in range(max(1, n_words // 6)):
            i = rng.randrange(n_words)
            raw[4 * i: 4 * i + 4] = struct.pack(">I", rng.choice(table))
    else:
        n_words = n_bytes // 2
        for _ in range(max(1, n_words // 6)):
            i = rng.randrange(n_words)
            raw[2 * i: 2 * i + 2] = struct.pack(">H", rng.choice([0, 0xFFFF, 1, 0x8000, 0x7FFF, 0x00FF, 0xFF00]))
    return bytes(raw)


def image_descriptor_presets(img, rng):
    table = record_table(img["level"])
    type_code = TYPE_CODE[table]
    reclen = PREFIX_LEN[table] + img["pixels"] * SAMPLE_BYTES[type_code]
    v = {
        "preamble/record_length": 720,
        "number_of_sar_data_records": f"{img['lines']:6d}",
        "sar_data_record_length": f"{reclen:6d}",
        "sar_related_data_in_the_record/number_of_lines_per_dataset": f"{img['lines']:8d}",
        "sar_related_data_in_the_record/number_of_data_groups_per_line": f"{img['pixels']:8d}",
        "prefix_suffix_data_locators/sar_data_format_type_code": V.pad(type_code, 4, rng),
    }
    return v, reclen


def build_image(img, rng, policy="decoy", mode="random"):
    """img: {level, lines, pixels, raw (bytes|None), header (overrides), columns (overrides:
    name -> list per line), instant, blank_header: [paths to blank]}

    returns (bytes, info) where info has header leaves, per-line leaves and the raw samples
    """
    table = record_table(img["level"])
    type_code = TYPE_CODE[table]
    lines, pixels = img["lines"], img["pixels"]
    presets, reclen = image_descriptor_presets(img, rng)
    for path in img.get("blank_header", ()):
        node_w = {
            "sar_related_data_in_the_record/interleaving_id": 4,
            "prefix_suffix_data_locators/maximum_data_range_of_pixel": 8,
            "prefix_suffix_data_locators/number_of_burst_data": 4,
            "prefix_suffix_data_locators/number_of_lines_per_burst": 4,
            "scansar_burst_data_information/number_of_overlap_lines_with_adjacent_bursts": 4,
        }[path]
        presets[path] = " " * node_w
    presets.update(img.get("header", {}))
    hfill = Filler(rng, policy, IMAGE_DESCRIPTOR_REQUIRED, mode=mode, table="image_file_descriptor")

    def header_filler(path, node, width, codec):
        if path in HEADER_OPTIONAL and codec == "A-int" and mode == "random":
            # non-negative numbers for the optional header attributes
            return V.gen_int_text(width, rng, nonneg=True)
        if path in HEADER_OPTIONAL and codec == "A-str" and mode == "random":
            return V.gen_str_text(width, rng, min_len=1)
        return hfill(path, node, width, codec)

    header, header_leaves = layout.encode("image_file_descriptor", presets, header_filler)
    assert len(header) == 720

    sample_bytes = SAMPLE_BYTES[type_code]
    raw = img.get("raw")
    sparse_rows = img.get("sparse_rows")
    if sparse_rows is not None:
        # a virtual image: only the listed lines carry generated samples, all others are zero and
        # are never materialised (files of several GiB at the cost of their record prefixes)
        raw = None
    elif raw is None:
        raw = gen_raw_samples(lines * pixels * sample_bytes, rng, type_code)
    assert raw is None or len(raw) == lines * pixels * sample_bytes
    extents = []

    inst = img.get("instant") or {"year": 2014, "doy": 241, "ms": 45_296_789, "us": 123}
    columns = img.get("columns", {})
    out = bytearray(header)
    line_leaves = []
    constants = {}
    line_number = rng.randrange(1, 5)
    cfill = Filler(rng, policy, (), mode=mode, enum_cycle=img.get("enum_cycle"), table=table)
    drift = {}
    for i in range(lines):
        pres = {
            "preamble/record_type": RECORD_TYPE[table],
            "preamble/record_length": reclen,
            "sar_image_data_line_number": line_number,
        }
        line_number += rng.randrange(1, 4)
        numbering = img.get("line_numbers")
        if numbering == "restart" and i + 1 == (lines + 1) // 2:
            line_number = rng.randrange(1, 3)  # the numbering starts again half way (a second segment)
        elif numbering == "zeros" and i + 1 >= max(1, lines - 1 - lines // 3):
            line_number = 0  # trailing lines without a number
        # times: first line carries the reference instant, later lines later the same day
        year_i, doy_i = inst["year"], inst["doy"]
        if i == 0:
            ms, us = inst["ms"], inst["ms"] * 1000 + inst.get("us", 0)
        elif img.get("cross_midnight"):
            # the acquisition runs over midnight UTC: later lines belong to the next day (and, on
            # the last day of a year, to the next year)
            total = inst["ms"] + i * (400 + 37 * (i % 5))
            days, ms = divmod(total, 86_400_000)
            if img["cross_midnight"] == "overflow" and table != "signal_data_record":
                # the other encoding of the same instants: the day stays that of the first line
                # and the millisecond counter runs past 86 400 000
                days, ms = 0, total
            us = ms * 1000 + rng.randrange(1000)
            doy_i += days
            n_days = 366 if year_i % 4 == 0 else 365
            if doy_i > n_days:
                year_i, doy_i = year_i + 1, doy_i - n_days
        else:
            ms = min(86_399_999, inst["ms"] + i * rng.randrange(1, 50)) if not img.get("random_times") else rng.randrange(86_400_000)
            us = ms * 1000 + rng.randrange(1000)
        pres["sensor_acquisition_date"] = {"year": year_i, "doy": doy_i, "ms": ms}
        if table == "signal_data_record":
            pres["sensor_acquisition_date_microseconds"] = us
        for name, col in columns.items():
            pres[name] = col[i]
        pres.update(img.get("line_overrides", {}).get(i, {}))

        def line_filler(path, node, width, codec, _i=i):
            top = path.split("/")[0]
            if img.get("drift") is not None and codec in layout.BIN_FMT and top not in LINE_CONSTANTS \
                    and leaf_class(path, node) == "value":
                # slowly varying columns: a large base value plus a small per-line step (what
                # latitudes, Doppler terms, ranges of neighbouring lines look like)
                if path not in drift:
                    drng = random.Random(f"{img['drift']}/{path}")
                    mx = layout.BIN_MAX[codec]
                    step = drng.choice([0, 1, 1, 2, 3])
                    drift[path] = (drng.randrange(mx // 4, mx - step * lines - 1), step)
                base, step = drift[path]
                return base + _i * step
            if top in LINE_CONSTANTS and not img.get("vary_constants"):
                if path not in constants:
                    constants[path] = cfill(path, node, width, codec)
                return constants[path]
            return cfill(path, node, width, codec)

        rec, leaves = layout.encode(table, pres, line_filler)
        assert len(rec) == PREFIX_LEN[table], (len(rec), table)
        if sparse_rows is not None:
            extents.append((720 + i * reclen, bytes(rec)))
            if i in sparse_rows:
                row_rng = random.Random(f"sparse/{sparse_rows[i]}/{i}")
                extents.append((720 + i * reclen + len(rec), gen_raw_samples(pixels * sample_bytes, row_rng, type_code)))
            line_leaves.append(leaves)
            continue
        out += rec
        out += raw[i * pixels * sample_bytes: (i + 1) * pixels * sample_bytes]
        line_leaves.append(leaves)
    info = {
        "table": table,
        "type_code": type_code,
        "reclen": reclen,
        "header_leaves": header_leaves,
        "line_leaves": line_leaves,
        "raw": raw,
        "lines": lines,
        "pixels": pixels,
    }
    if sparse_rows is not None:
        from vf.ceosgen.sparse import SparseBytes

        return SparseBytes(720 + lines * reclen, [(0, bytes(out))] + extents), info
    return bytes(out), info


# --------------------------------------------------------------------------------------
# trailer
# --------------------------------------------------------------------------------------


def build_trailer(lowres, rng, policy="decoy"):
    """lowres: list of {pixels, lines, nbytes, data: bytes}"""
    v = {
        "preamble/record_length": 720,
        "number_of_low_resolution_images": f"{len(lowres):6d}",
    }
    for i, im in enumerate(lowres):
        v[f"low_resolution_image_sizes/{i}/record_length"] = f"{len(im['data']):8d}"
        v[f"low_resolution_image_sizes/{i}/number_of_pixels"] = f"{im['pixels']:6d}"
        v[f"low_resolution_image_sizes/{i}/number_of_lines"] = f"{im['lines']:6d}"
        v[f"low_resolution_image_sizes/{i}/number_of_bytes_per_one_sample"] = f"{im['nbytes']:6d}"
    filler = Filler(rng, policy, {"number_of_low_resolution_images"}, table="trailer_file_descriptor")
    header, leaves = layout.encode("trailer_file_descriptor", v, filler)
    assert len(header) == 720, len(header)
    return header + b"".join(im["data"] for im in lowres), leaves


# --------------------------------------------------------------------------------------
# summary.txt
# --------------------------------------------------------------------------------------


def level_tag(level):
    return "L" + level.replace(".", "")


def file_names(scene_id, product_id, images):
    base = f"{scene_id}-{product_id}"
    names = {"volume_directory": f"VOL-{base}", "sar_leader": f"LED-{base}", "sar_trailer": f"TRL-{base}"}
    imgs = []
    for im in images:
        name = f"IMG-{im['pol']}-{base}"
        if im.get("scan"):
            name += f"-{im['scan']}"
        imgs.append(name)
    names["sar_imagery"] = imgs
    return names


def default_summary_entries(spec, names):
    """a modest, realistic summary (list of (section, key, value)); C14 has its own generator"""
    level = spec["level"]
    tag = level_tag(level)
    files = [names["volume_directory"], names["sar_leader"], *names["sar_imagery"], names["sar_trailer"]]
    entries = [
        ("Odi", "SiteDateTime", "20190109 02:37:01.764"),
        ("Scs", "SceneID", spec["scene_id"]),
        ("Scs", "SceneShift", "0"),
        ("Pds", "ProductID", spec["product_id"]),
        ("Pds", "ResamplingMethod", "NN"),
        ("Pds", "UTM_ZoneNo", "31"),
        ("Pds", "MapDirection", "MapNorth"),
        ("Pds", "OrbitDataPrecision", "Precision"),
        ("Pds", "AttitudeDataPrecision", "Onboard"),
        ("Pds", "PixelSpacing", "2.500000"),
        ("Img", "SceneCenterDateTime", "20140829 12:34:56.789"),
        ("Img", "OffNadirAngle", "21.3"),
        ("Pdi", f"CntOf{tag}ProductFileName", str(len(files))),
    ]
    for i, f in enumerate(files, start=1):
        entries.append(("Pdi", f"{tag}ProductFileName{i:02d}", f))
    entries += [
        ("Pdi", "BitPixel", "16"),
        ("Pdi", "ProductFormat", "CEOS"),
        ("Pdi", "ProductDataSize", "798.2"),
    ]
    for i, im in enumerate(spec["images"]):
        entries.append(("Pdi", f"NoOfPixels_{i}", str(im["pixels"])))
        entries.append(("Pdi", f"NoOfLines_{i}", str(im["lines"])))
    entries += [
        ("Ach", "PRF_Check", ""),
        ("Ach", "TimeCheck", "GOOD"),
        ("Rad", "PracticeResultCode", "GOOD"),
        ("Lbi", "Satellite", "ALOS2"),
        ("Lbi", "ObservationDate", "20140829"),
        ("Lbi", "ProcessFacility", "SCMO"),
    ]
    return entries


def render_summary(entries, newline="\n", trailing_newline=True):
    text = newline.join(f'{s}_{k}="{v}"' for s, k, v in entries)
    if trailing_newline:
        text += newline
    return text


# --------------------------------------------------------------------------------------
# whole product
# --------------------------------------------------------------------------------------


def default_spec(level="1.5", lines=6, pixels=5, n_images=1, vseed=0):
    pols = ["HH", "HV", "VH", "VV"]
    pid = {"1.1": "HBQR1.1__A", "1.5": "HBQR1.5RUA", "3.1": "HBQR3.1RUA"}[level]
    return {
        "level": level,
        "scene_id": "ALOS2014410740-140829",
        "product_id": pid,
        "images": [
            {"pol": pols[i % 4], "scan": None, "lines": lines, "pixels": pixels} for i in range(n_images)
        ],
        "leader": default_leader_params(),
        "volume": {"n_file_pointers": 2 + n_images},
        "policy": "decoy",
        "vseed": vseed,
    }


def build_product(spec):
    """returns (files: dict name -> bytes, info)"""
    rng = random.Random(spec.get("vseed", 0))
    policy = spec.get("policy", "decoy")
    mode = spec.get("mode", "random")
    names = file_names(spec["scene_id"], spec["product_id"], spec["images"])
    inst = spec["leader"]["instant"]
    files = {}
    info = {"names": names, "images": []}

    vol_params = dict(spec["volume"])
    vol_params.setdefault("instant", inst)
    files[names["volume_directory"]], info["volume_leaves"] = build_volume(
        vol_params, rng, policy, spec.get("volume_overrides"), mode=mode
    )
    files[names["sar_leader"]], info["leader_leaves"] = build_leader(
        spec["leader"], rng, policy, spec.get("leader_overrides"), mode=mode,
        enum_cycle=spec.get("enum_cycle"),
    )
    for im, name in zip(spec["images"], names["sar_imagery"]):
        img = dict(im)
        img["level"] = spec["level"]
        img.setdefault("instant", inst)
        if "enum_cycle" in spec:
            img.setdefault("enum_cycle", spec["enum_cycle"])
        irng = random.Random(f"{spec.get('vseed', 0)}/{name}")
        data, iinfo = build_image(img, irng, policy, mode=mode)
        iinfo["name"] = name
        files[name] = data
        info["images"].append(iinfo)
    # content after the last declared record of a file (block padding, a further record the
    # reader does not know): it belongs to no record, so it must not influence anything
    trailing = spec.get("trailing") or {}
    trng = random.Random(f"{spec.get('vseed', 0)}/trailing")
    targets = {"volume": [names["volume_directory"]], "leader": [names["sar_leader"]], "image": list(names["sar_imagery"])}
    for what, kind in trailing.items():
        for fname in targets[what]:
            files[fname] = files[fname] + trailing_bytes(kind, trng)
    lowres = spec.get("lowres", [])
    files[names["sar_trailer"]], info["trailer_leaves"] = build_trailer(lowres, rng, policy)
    entries = spec.get("summary_entries") or default_summary_entries(spec, names)
    info["summary_entries"] = entries
    files["summary.txt"] = render_summary(
        entries, spec.get("newline", "\n"), spec.get("trailing_newline", True)
    ).encode()
    return files, info


def trailing_bytes(kind, rng):
    n = rng.choice([1, 100, 360, 512, 720, 1024])
    if kind == "blank":
        return b" " * n
    if kind == "nul":
        return b"\0" * n
    if kind == "text":
        # looks like one more text record: printable decoys of a whole record length
        return V.filler_text(360, rng, "printable").encode("ascii")
    if kind == "random":
        return rng.randbytes(n)
    raise ValueError(kind)


def pinned_spec(spec, info, changes):
    """a spec that reproduces `info`'s product byte for byte except for `changes`

    changes: {"leader": {path: value}, "volume": {...}, "header": {image index: {path: value}},
              "lines": {image index: {line index: {path: value}}}}
    """
    new = dict(spec)
    new["leader_overrides"] = {leaf.path: leaf.value for leaf in info["leader_leaves"]}
    new["leader_overrides"].update(changes.get("leader", {}))
    new["volume_overrides"] = {leaf.path: leaf.value for leaf in info["volume_leaves"]}
    new["volume_overrides"].update(changes.get("volume", {}))
    images = []
    for k, (im, iinfo) in enumerate(zip(spec["images"], info["images"])):
        im = dict(im)
        im["raw"] = iinfo["raw"]
        im["header"] = {leaf.path: leaf.value for leaf in iinfo["header_leaves"]}
        im["header"].update(changes.get("header", {}).get(k, {}))
        im.pop("blank_header", None)
        lo = {}
        for i, leaves in enumerate(iinfo["line_leaves"]):
            lo[i] = {leaf.path: leaf.value for leaf in leaves}
            lo[i].update(changes.get("lines", {}).get(k, {}).get(i, {}))
        im["line_overrides"] = lo
        images.append(im)
    new["images"] = images
    return new
