"""Value generation and number rendering.  The *text written* is the ground truth.

All randomness comes from a `random.Random` instance that the caller seeds from a value drawn
by Hypothesis (the case dict carries that seed), so a case is a pure function of its dict.
"""

import math
import string

PRINTABLE = "".join(chr(c) for c in range(0x20, 0x7F))
DECOY_DIGITS = "0123456789"


def pad(text, width, rng, allow_left=True):
    """pad text with spaces to width: left, right or both (generated choice)"""
    free = width - len(text)
    if free < 0:
        raise ValueError(f"{text!r} wider than {width}")
    if free == 0:
        return text
    mode = rng.randrange(3) if allow_left else 0
    if mode == 0:  # right justified (the usual CEOS convention for numbers)
        return " " * free + text
    if mode == 1:
        return text + " " * free
    left = rng.randrange(free + 1)
    return " " * left + text + " " * (free - left)


def render_int(value, width, rng):
    text = str(value)
    if len(text) > width:
        raise ValueError("int too wide")
    style = rng.randrange(4)
    if style == 0 and len(text) < width and value >= 0:
        # leading zeros up to a generated length
        n = rng.randrange(len(text), width + 1)
        text = text.rjust(n, "0")
    elif style == 1 and value >= 0 and len(text) < width:
        text = "+" + text
    return pad(text, width, rng)


def gen_int_text(width, rng, nonneg=False):
    """an integer of every digit count up to the width, incl. negatives"""
    if width == 1:
        return str(rng.randrange(10))
    negative = (not nonneg) and rng.random() < 0.25
    max_digits = width - 1 if negative else width
    digits = rng.randrange(1, max_digits + 1)
    if digits == 1:
        magnitude = rng.randrange(10)
    else:
        magnitude = rng.randrange(10 ** (digits - 1), 10**digits)
    value = -magnitude if negative else magnitude
    if rng.random() < 0.1:
        value = 0
    return render_int(value, width, rng)


def float_candidates(x, width):
    """all renderings of x that fit into width (E / F notation, several precisions)"""
    out = []
    for p in range(0, width):
        for fmt in (f"%.{p}E", f"%.{p}e", f"%.{p}f"):
            t = fmt % x
            if len(t) <= width:
                out.append(t)
    for t in (repr(x), f"{x:g}"):
        if len(t) <= width and "n" not in t:  # no nan / inf
            out.append(t)
    # other spellings of the same notations that every ASCII float reader accepts
    # ([+-]? (digits [. digits*] | . digits) ([eE] [+-]? digits)?): no leading zero (".5",
    # "-.5E-01", as Fortran writers produce), bare trailing point ("5."), short exponents ("1E5")
    extra = []
    for t in out:
        if t.startswith("0.") and len(t) > 2:
            extra.append(t[1:])
        elif t.startswith("-0.") and len(t) > 3:
            extra.append("-" + t[2:])
        mant, sep, exp = t.partition("E") if "E" in t else t.partition("e")
        if sep:
            sign = "-" if exp.startswith("-") else ""
            digits = exp.lstrip("+-").lstrip("0") or "0"
            extra.append(f"{mant}{sep}{sign}{digits}")
            if "." not in mant and len(t) + 1 <= width:
                extra.append(f"{mant}.{sep}{exp}")
        elif "." not in t and len(t) + 1 <= width:
            extra.append(t + ".")
    out.extend(e for e in extra if len(e) <= width)
    return out


def gen_float_text(width, rng):
    """random finite float over many magnitudes rendered in a generated notation that fits"""
    kind = rng.randrange(10)
    if kind == 0:
        x = 0.0
    elif kind == 1:
        x = float(rng.randrange(-999, 1000))
    elif kind <= 5:
        x = rng.uniform(-1, 1) * 10 ** rng.randrange(-3, 8)
    else:
        x = rng.uniform(-1, 1) * 10 ** rng.randrange(-30, 31)
    if width <= 8:
        x = round(rng.uniform(-999, 999), rng.randrange(0, 4))
    cands = float_candidates(x, width)
    if not cands:
        cands = float_candidates(float(int(x) % 10 ** max(1, width - 2)), width)
    text = rng.choice(cands)
    if rng.random() < 0.15 and len(text) < width and not text.startswith("-"):
        text = "+" + text
    text = pad(text, width, rng)
    value = float(text)
    if math.isnan(value) or math.isinf(value):
        return gen_float_text(width, rng)
    return text


INTERIOR_NUL = True


def gen_str_text(width, rng, alphabet=PRINTABLE, min_len=0):
    """printable ASCII with inner spaces, any length up to the width, any padding"""
    if width == 0:
        return ""
    n = rng.randrange(min_len, width + 1)
    if rng.random() < 0.3:
        n = width
    chars = [rng.choice(alphabet) for _ in range(n)]
    text = "".join(chars)
    # the ground truth is the stripped text, so make the ends non-blank when n > 0
    if n > 0:
        nb = alphabet.replace(" ", "")
        text = rng.choice(nb) + text[1:]
        if n > 1:
            text = text[:-1] + rng.choice(nb)
    if len(text) < width and rng.random() < 0.08:
        # C-style padding: the text is terminated and filled up with NUL bytes
        return text + "\0" * (width - len(text))
    if INTERIOR_NUL and n >= 3 and rng.random() < 0.03:
        # a NUL inside the content, with content after it: part of the field, not padding
        k = rng.randrange(1, n - 1)
        text = text[:k] + "\0" + text[k + 1:]
    return pad(text, width, rng)


def gen_token_text(width, rng, min_len=1):
    """a token that is certainly not numeric and has no spaces (marker-ish)"""
    n = rng.randrange(min_len, width + 1) if width >= min_len else width
    text = "".join(rng.choice(string.ascii_uppercase) for _ in range(n))
    return pad(text, width, rng)


def gen_bin(codec_max, rng):
    k = rng.randrange(6)
    if k == 0:
        return 0
    if k == 1:
        return 1
    if k == 2:
        return codec_max
    if k == 3:
        return rng.randrange(0, 1000)
    return rng.randrange(0, codec_max + 1)


def filler_text(width, rng, policy):
    """content for spare / blank / reserved ASCII areas"""
    if policy == "blank" or width == 0:
        return " " * width
    if policy == "digits":
        return "".join(rng.choice(DECOY_DIGITS) for _ in range(width))
    if policy == "numbers":
        # valid numbers separated by blanks (decoys that parse as numbers if misframed)
        out = ""
        while len(out) < width:
            out += str(rng.randrange(1, 99999)) + " "
        return out[:width]
    # printable
    return "".join(rng.choice(PRINTABLE) for _ in range(width))
