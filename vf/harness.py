"""Shared harness: repo import, product materialisation, tree flattening and comparison."""

import hashlib
import itertools
import json
import math
import contextlib
import os
import pathlib
import shutil
import sys
import tempfile
import uuid

import numpy as np

REPO = os.environ.get("VERIF_REPO", "/repo")
if REPO not in sys.path:
    sys.path.insert(0, REPO)

_counter = itertools.count()


def cache_home():
    """the isolated XDG cache dir set up by ./check"""
    return pathlib.Path(os.environ["XDG_CACHE_HOME"])


def user_cache_root():
    return cache_home() / "xarray-ceos-alos2"


def scratch_root():
    root = pathlib.Path(os.environ.get("VERIF_SCRATCH") or tempfile.gettempdir())
    root.mkdir(parents=True, exist_ok=True)
    return root


def canonical(case):
    return json.dumps(case, sort_keys=True, default=_json_default, separators=(",", ":"))


def case_hash(case):
    return hashlib.sha1(canonical(case).encode()).hexdigest()


def _json_default(o):
    if isinstance(o, (bytes, bytearray)):
        return {"__bytes__": bytes(o).hex()}
    if isinstance(o, np.generic):
        return o.item()
    if isinstance(o, np.ndarray):
        return o.tolist()
    if isinstance(o, (set, frozenset)):
        return sorted(o)
    if isinstance(o, tuple):
        return list(o)
    return repr(o)


def dump_json(obj, path):
    pathlib.Path(path).parent.mkdir(parents=True, exist_ok=True)
    with open(path, "w") as f:
        json.dump(obj, f, indent=1, default=_json_default, sort_keys=False)
        f.write("\n")


def revive(obj):
    """inverse of _json_default for bytes"""
    if isinstance(obj, dict):
        if set(obj) == {"__bytes__"}:
            return bytes.fromhex(obj["__bytes__"])
        return {k: revive(v) for k, v in obj.items()}
    if isinstance(obj, list):
        return [revive(v) for v in obj]
    return obj


# ----------------------------------------------------------------------------------------
# product materialisation
# ----------------------------------------------------------------------------------------


# set by the runner while it executes an "in-place pair" case: both products of the pair are then
# materialised at the SAME root (same path / URL), the second replacing the first, as a
# re-delivered product does
FIXED_NAME = None
PAIR_INDEX = None  # 0 / 1 while the first / second product of an in-place pair runs


class Materialised:
    """a product placed on some filesystem; use as a context manager"""

    def __init__(self, files, kind="local", name=None):
        self.files = files
        self.kind = kind
        self.fixed = name is None and FIXED_NAME is not None
        self.name = name or FIXED_NAME or f"prod-{os.getpid()}-{next(_counter)}-{uuid.uuid4().hex[:8]}"
        self.dir = None
        self.url = None
        self.storage_options = {}

    def __enter__(self):
        import fsspec

        if self.kind in ("local", "file"):
            if self.fixed:
                base = scratch_root() / "vfprod-fixed"
                base.mkdir(exist_ok=True)
                self.dir = base / self.name
                shutil.rmtree(self.dir, ignore_errors=True)
            else:
                self.dir = pathlib.Path(tempfile.mkdtemp(prefix="vfprod-", dir=scratch_root())) / self.name
            self.dir.mkdir()
            for name, data in self.files.items():
                (self.dir / name).write_bytes(data)
            self.url = str(self.dir) if self.kind == "local" else self.dir.as_uri()
        elif self.kind == "memory":
            fs = fsspec.filesystem("memory")
            for name, data in self.files.items():
                fs.pipe(f"/{self.name}/{name}", data)
            self.url = f"memory:///{self.name}"
        elif self.kind == "vtrace":
            from vf import vtrace

            vtrace.register()
            vtrace.STORE.put_product(self.name, self.files)
            self.url = f"vtrace://{self.name}"
        else:
            raise ValueError(self.kind)
        return self

    def __exit__(self, *exc):
        import fsspec

        if self.kind in ("local", "file"):
            shutil.rmtree(self.dir if self.fixed else self.dir.parent, ignore_errors=True)
        elif self.kind == "memory":
            fs = fsspec.filesystem("memory")
            try:
                fs.rm(f"/{self.name}", recursive=True)
            except FileNotFoundError:
                pass
        elif self.kind == "vtrace":
            from vf import vtrace

            vtrace.STORE.drop_product(self.name)
        # drop any user cache made for this root
        return False


def open_tree(url, **backend_options):
    import ceos_alos2

    return ceos_alos2.open_alos2(url, backend_options=backend_options)


class SetupViolation(Exception):
    """raised while a check prepares its reference state when the code under test already breaks
    the documented contract there (e.g. an ordinary well-formed product cannot be opened, the
    index cache is not written where the docs say); carries the discrepancy, which is reported
    like any other"""

    def __init__(self, disc):
        super().__init__(disc["kind"])
        self.disc = disc


def reference_open(url, what="reference open of a well-formed product", **backend_options):
    """open + flatten for reference / base states: a failure here is a finding, not a harness error"""
    try:
        tree = open_tree(url, **backend_options)
        return tree, flatten(tree)
    except Exception as e:  # noqa: BLE001
        raise SetupViolation(disc("exception", what, "a tree", exc_text(e))) from e


# ----------------------------------------------------------------------------------------
# flatten / compare
# ----------------------------------------------------------------------------------------


class VarLeaf:
    __slots__ = ("dims", "dtype", "shape", "values", "is_coord", "encoding", "load_error")

    def __init__(self, dims, dtype, shape, values, is_coord, encoding, load_error=None):
        self.dims = dims
        self.dtype = dtype
        self.shape = shape
        self.values = values
        self.is_coord = is_coord
        self.encoding = encoding
        self.load_error = load_error


def flatten(tree, load=True):
    """DataTree -> ordered dict of leaves

    '<path>/'            -> list of child names (order)
    '<path>@<attr>'      -> attribute value
    '<path>#<var>'       -> VarLeaf
    '<path>#<var>@<a>'   -> variable attribute value
    """
    out = {}
    for node in tree.subtree:
        path = node.path
        out[f"{path}/"] = list(node.children)
        ds = node.to_dataset(inherit=False)
        for k, v in ds.attrs.items():
            out[f"{path}@{k}"] = v
        out[f"{path}#"] = list(ds.variables)
        for name, var in ds.variables.items():
            values = None
            err = None
            if load:
                try:
                    values = np.asarray(var.values)
                except Exception as e:  # noqa: BLE001 - reported as a leaf property
                    err = f"{type(e).__name__}: {e}"
            out[f"{path}#{name}"] = VarLeaf(
                tuple(var.dims),
                var.dtype,
                tuple(var.shape) if isinstance(var.shape, (tuple, list)) else var.shape,
                values,
                name in ds.coords,
                dict(var.encoding),
                err,
            )
            for k, v in var.attrs.items():
                out[f"{path}#{name}@{k}"] = v
    return out


def array_bytes_equal(a, b):
    a = np.asarray(a)
    b = np.asarray(b)
    if a.shape != b.shape:
        return False
    if a.dtype != b.dtype:
        return False
    if a.dtype.kind == "O":
        return obj_equal(a.tolist(), b.tolist())
    if a.dtype.kind in "US":
        return bool(np.array_equal(a, b))
    return np.ascontiguousarray(a).tobytes() == np.ascontiguousarray(b).tobytes()


def obj_equal(a, b):
    """strict structural equality: types matter, NaN == NaN"""
    if isinstance(a, np.ndarray) or isinstance(b, np.ndarray):
        if not (isinstance(a, np.ndarray) and isinstance(b, np.ndarray)):
            return False
        return array_bytes_equal(a, b)
    # subclasses of int / str (construct hands out EnumInteger / EnumIntegerString for enumerated
    # fields) carry the same value as the plain object: "identical attributes" is not a claim
    # about the Python class of an attribute value
    if isinstance(a, int) and not isinstance(a, bool) and type(a) is not int:
        a = int(a)
    if isinstance(b, int) and not isinstance(b, bool) and type(b) is not int:
        b = int(b)
    if isinstance(a, str) and type(a) is not str:
        a = str(a)
    if isinstance(b, str) and type(b) is not str:
        b = str(b)
    if type(a) is not type(b):
        return False
    if isinstance(a, float):
        return (a == b and math.copysign(1, a) == math.copysign(1, b)) or (a != a and b != b)
    if isinstance(a, complex):
        return obj_equal(a.real, b.real) and obj_equal(a.imag, b.imag)
    if isinstance(a, np.generic):
        return a.dtype == b.dtype and a.tobytes() == b.tobytes()
    if isinstance(a, (list, tuple)):
        return len(a) == len(b) and all(obj_equal(x, y) for x, y in zip(a, b))
    if isinstance(a, dict):
        return list(a) == list(b) and all(obj_equal(a[k], b[k]) for k in a)
    return a == b


def short(v, n=160):
    if isinstance(v, VarLeaf):
        r = f"Var(dims={v.dims}, dtype={v.dtype}, shape={v.shape}, coord={v.is_coord}, enc={v.encoding}, values={short(v.values, 80)}, err={v.load_error})"
    elif isinstance(v, np.ndarray):
        r = f"ndarray[{v.dtype},{v.shape}]{np.array2string(v.ravel()[:6], threshold=6)}"
    else:
        r = repr(v)
    return r if len(r) <= n else r[: n - 3] + "..."


def disc(kind, where, expected=None, observed=None, **context):
    d = {"kind": kind, "where": where, "expected": short(expected), "observed": short(observed)}
    if context:
        d["context"] = context
    return d


def varleaf_diff(a, b, ignore_encoding=False):
    """list of the aspects in which two VarLeaf objects differ"""
    aspects = []
    if a.dims != b.dims:
        aspects.append("dims")
    if str(a.dtype) != str(b.dtype) or type(a.dtype) is not type(b.dtype):
        aspects.append("dtype")
    if a.shape != b.shape:
        aspects.append("shape")
    if a.is_coord != b.is_coord:
        aspects.append("is_coord")
    if not ignore_encoding and a.encoding != b.encoding:
        aspects.append("encoding")
    if a.load_error != b.load_error:
        aspects.append("load_error")
    if (a.values is None) != (b.values is None):
        aspects.append("values")
    elif a.values is not None and not array_bytes_equal(a.values, b.values):
        aspects.append("values")
    return aspects


def diff_flat(a, b, ignore_encoding=lambda key: False, kind="tree-differs"):
    """compare two flattened trees exactly; returns discrepancies"""
    out = []
    for key in a:
        if key not in b:
            out.append(disc("leaf-missing", key, a[key], None))
    for key in b:
        if key not in a:
            out.append(disc("leaf-unexpected", key, None, b[key]))
    for key, va in a.items():
        if key not in b:
            continue
        vb = b[key]
        if isinstance(va, VarLeaf) or isinstance(vb, VarLeaf):
            if not (isinstance(va, VarLeaf) and isinstance(vb, VarLeaf)):
                out.append(disc(kind, key, va, vb))
                continue
            aspects = varleaf_diff(va, vb, ignore_encoding(key))
            if aspects:
                ctx = {"aspects": aspects}
                if "load_error" in aspects:
                    ctx["load_error"] = str(vb.load_error)[:80]
                out.append(disc(kind, key, va, vb, **ctx))
        elif not obj_equal(va, vb):
            out.append(disc(kind, key, va, vb))
    return out


def guard(fn, *args, **kwargs):
    """call code under test; returns (result, None) or (None, exception)"""
    try:
        return fn(*args, **kwargs), None
    except Exception as e:  # noqa: BLE001 - the exception is data for the oracle
        return None, e


def exc_text(e):
    return f"{type(e).__name__}: {str(e)[:200]}"


@contextlib.contextmanager
def process_tz(tz):
    """run a block with the process time zone set to a POSIX TZ string (e.g. 'PST8', 'JST-9');
    nothing a reader of UTC-stamped files returns may depend on it"""
    import time

    if not tz:
        yield
        return
    old = os.environ.get("TZ")
    os.environ["TZ"] = tz
    time.tzset()
    try:
        yield
    finally:
        if old is None:
            os.environ.pop("TZ", None)
        else:
            os.environ["TZ"] = old
        time.tzset()
