"""Known findings: structural matchers on discrepancies (never 'property X may fail').

known_findings.json is committed and never written at run time.  Entries with status "open"
filter matching discrepancies (and are announced with a KNOWN-FINDING line); entries with status
"fixed" filter nothing.
"""

import json
import pathlib

PATH = pathlib.Path(__file__).resolve().parent.parent / "known_findings.json"

MATCHERS = {}


def matcher(kid):
    def deco(fn):
        MATCHERS[kid] = fn
        return fn

    return deco


def entries():
    if not PATH.exists():
        return []
    return json.loads(PATH.read_text())["findings"]


def open_entries(pid):
    return [e for e in entries() if e["status"] == "open" and pid in e["properties"]]


def match(pid, case, d, open_known):
    for e in open_known:
        fn = MATCHERS.get(e["id"])
        if fn is not None and fn(pid, case, d):
            return e["id"]
    return None


# ---------------------------------------------------------------------------------------------
# matchers for the open findings
# ---------------------------------------------------------------------------------------------
import re  # noqa: E402

D8_NAMES = (
    "elevation_angle_at_nadir_of_antenna",
    "antenna_squint_angle",
    "platform_velocity",
    "platform_acceleration",
    "platform_attitude",
)
D8_WHERE = re.compile(r"^/imagery/[A-Za-z0-9_]+#(" + "|".join(D8_NAMES) + r")$")


@matcher("D8")
def match_d8(pid, case, d):
    if not D8_WHERE.match(d["where"]):
        return False
    if pid == "C12":
        return d["kind"] == "dtype-opaque" and "object" in d["observed"]
    return d["kind"] in ("d8-object-array",)


D9_WHERE = re.compile(r"^/metadata/attitude/(attitude|rates)#time$")
DAY_NS = 86_400 * 10**9


@matcher("D9")
def match_d9(pid, case, d):
    if not D9_WHERE.match(d["where"]) or d["kind"] != "value":
        return False
    ctx = d.get("context", {})
    return ctx.get("all_deltas_ns") == [DAY_NS]


D5_WHERE = re.compile(r"^/imagery/[A-Za-z0-9_]+#data$")


@matcher("D5")
def match_d5(pid, case, d):
    ctx = d.get("context", {})
    fs = ctx.get("fs", case.get("fs"))
    if fs not in ("memory", "vtrace"):
        return False
    if not D5_WHERE.match(d["where"]):
        return False
    if d["kind"] not in ("cached-differs", "history-differs", "torn-cache-differs", "stale-cache-kept"):
        return False
    return set(ctx.get("aspects", [])) <= {"load_error", "values"} and str(ctx.get("load_error", "")).startswith("FileNotFoundError")
