"""`vtrace://` - an instrumented in-process fsspec filesystem owned by the harness.

* serves products from a byte store,
* records every cat_file / open / seek / read / close into an event log,
* optionally serves a file truncated or missing (fault injection),
* optionally calls a hook at every file operation (yield points of the C19 scheduler).
"""

import io
import threading

import fsspec
from fsspec.spec import AbstractFileSystem


class Store:
    def __init__(self):
        self.files = {}  # "prod/name" -> bytes
        self.events = []
        self.lock = threading.Lock()
        self.hook = None  # callable(event_tuple) called BEFORE the operation takes effect
        self.recording = True
        self.mtimes = {}  # path -> POSIX time of the last put (what modified() / created() report)
        self.fail_reads = 0  # the next n reads raise OSError(EIO) (transient I/O error)
        self.fail_path = None  # ... restricted to paths containing this text (None: any path)
        self.fail_skip = 0  # ... after letting this many matching reads through
        self.delay_foreign_reads = 0  # seconds by which a file's first read from a non-opener thread is delayed
        # products whose files are handed out as ONE shared file object per path (what fsspec's
        # memory filesystem does): open() rewinds it, close() leaves it open
        self.shared_products = set()
        self.shared_handles = {}

    # --- content -------------------------------------------------------------------
    def put_product(self, name, files):
        import time

        for fname, data in files.items():
            self.files[f"{name}/{fname}"] = data if type(data).__name__ == "SparseBytes" else bytes(data)
            self.mtimes[f"{name}/{fname}"] = time.time()

    def drop_product(self, name):
        for key in [k for k in self.files if k.startswith(f"{name}/")]:
            del self.files[key]

    def put(self, path, data):
        import time

        self.files[path.strip("/")] = bytes(data)
        self.mtimes[path.strip("/")] = time.time()

    def remove(self, path):
        self.files.pop(path.strip("/"), None)

    # --- events --------------------------------------------------------------------
    def yield_point(self, event):
        if self.hook is not None:
            self.hook(event)

    def record(self, *event):
        if self.recording:
            with self.lock:
                self.events.append(event)

    def log(self, *event):
        self.yield_point(event)
        self.record(*event)

    def clear(self):
        with self.lock:
            self.events = []

    def snapshot(self):
        with self.lock:
            return list(self.events)


STORE = Store()


class TracedFile(io.RawIOBase):
    # fsspec's buffered / local file objects advertise a block size; a small one here means that
    # every realistic read request of the library is larger than a block
    blocksize = 64

    def __init__(self, store, path, data):
        super().__init__()
        self.store = store
        self.path = path
        self.data = data
        self.pos = 0
        self.handle = id(self)
        self.opener = threading.get_ident()
        self.foreign_delayed = False

    def readable(self):
        return True

    def seekable(self):
        return True

    def seek(self, offset, whence=0):
        if whence == 0:
            new = offset
        elif whence == 1:
            new = self.pos + offset
        else:
            new = len(self.data) + offset
        self.store.log("seek", self.path, self.handle, new)
        self.pos = new
        return self.pos

    def tell(self):
        return self.pos

    def read(self, size=-1):
        if size is None or size < 0:
            size = max(0, len(self.data) - self.pos)
        # yield point first: the position is read *after* it, so that an interleaved seek on
        # a shared handle has the effect it would have on a real file object
        self.store.yield_point(("read", self.path, self.handle, size))
        chunk = self._read_now(size)
        # second yield point: the data has been delivered but the caller has not looked at it
        # yet (a pre-emption right after the read returns)
        self.store.yield_point(("read-done", self.path, self.handle, size))
        return chunk

    def _read_now(self, size):
        if self.store.delay_foreign_reads and not self.foreign_delayed and threading.get_ident() != self.opener:
            # the first read that a thread other than the opener issues on this file object is
            # held up a little: requests handed to helper threads do not arrive in submission order
            self.foreign_delayed = True
            import time

            time.sleep(self.store.delay_foreign_reads)
        if self.store.fail_reads > 0 and (self.store.fail_path is None or self.store.fail_path in self.path):
            if self.store.fail_skip > 0:
                self.store.fail_skip -= 1
            else:
                self.store.fail_reads -= 1
                raise OSError(5, "injected transient read error", self.path)
        pos = self.pos
        chunk = self.data[pos: pos + size]
        self.pos = pos + len(chunk)
        self.store.record("read", self.path, self.handle, pos, size, len(chunk))
        return chunk

    def readinto(self, b):
        size = len(b)
        self.store.yield_point(("read", self.path, self.handle, size))
        chunk = self._read_now(size)
        b[: len(chunk)] = chunk
        # the caller's buffer is filled; another thread may run before the caller uses it
        self.store.yield_point(("read-done", self.path, self.handle, size))
        return len(chunk)

    def close(self):
        if getattr(self, "shared", False):
            self.store.log("close", self.path, self.handle)
            return  # like fsspec's MemoryFile: the object stays usable
        if not self.closed:
            self.store.log("close", self.path, self.handle)
        super().close()

    def __enter__(self):
        return self

    def __exit__(self, *exc):
        self.close()


class VTraceFileSystem(AbstractFileSystem):
    protocol = "vtrace"
    cachable = False

    def __init__(self, *args, **kwargs):
        super().__init__(*args, **kwargs)
        self.store = STORE

    @classmethod
    def _strip_protocol(cls, path):
        if isinstance(path, list):
            return [cls._strip_protocol(p) for p in path]
        path = str(path)
        if path.startswith("vtrace://"):
            path = path[len("vtrace://"):]
        return path.strip("/")

    def _key(self, path):
        return self._strip_protocol(path)

    def ls(self, path, detail=True, **kwargs):
        key = self._key(path)
        prefix = key + "/" if key else ""
        out = []
        seen = set()
        for k, v in self.store.files.items():
            if k == key:
                out.append({"name": k, "size": len(v), "type": "file"})
            elif k.startswith(prefix):
                rest = k[len(prefix):]
                if "/" in rest:
                    d = prefix + rest.split("/", 1)[0]
                    if d not in seen:
                        seen.add(d)
                        out.append({"name": d, "size": 0, "type": "directory"})
                else:
                    out.append({"name": k, "size": len(v), "type": "file"})
        if not out:
            raise FileNotFoundError(path)
        return out if detail else [o["name"] for o in out]

    def info(self, path, **kwargs):
        key = self._key(path)
        if key in self.store.files:
            return {"name": key, "size": len(self.store.files[key]), "type": "file", "mtime": self.store.mtimes.get(key, 0.0),
                    "created": self.store.mtimes.get(key, 0.0)}
        prefix = key + "/" if key else ""
        if any(k.startswith(prefix) for k in self.store.files):
            return {"name": key, "size": 0, "type": "directory"}
        raise FileNotFoundError(path)

    def modified(self, path):
        """time zone aware UTC, as fsspec's local and memory filesystems report it"""
        import datetime

        return datetime.datetime.fromtimestamp(self.info(path)["mtime"], tz=datetime.timezone.utc)

    def created(self, path):
        return self.modified(path)

    def exists(self, path, **kwargs):
        try:
            self.info(path)
            return True
        except FileNotFoundError:
            return False

    def cat_file(self, path, start=None, end=None, **kwargs):
        key = self._key(path)
        self.store.log("cat_file", key, start, end)
        if key not in self.store.files:
            raise FileNotFoundError(path)
        if self.store.fail_reads > 0 and self.store.fail_path is not None and self.store.fail_path in key:
            if self.store.fail_skip > 0:
                self.store.fail_skip -= 1
            else:
                self.store.fail_reads -= 1
                raise OSError(5, "injected transient read error", key)
        return self.store.files[key][start:end]

    def pipe_file(self, path, value, **kwargs):
        self.store.files[self._key(path)] = bytes(value)

    def rm_file(self, path):
        self.store.files.pop(self._key(path), None)

    def _open(self, path, mode="rb", **kwargs):
        key = self._key(path)
        if "r" not in mode:
            raise NotImplementedError("vtrace is read-only through open()")
        if key not in self.store.files:
            self.store.log("open-missing", key)
            raise FileNotFoundError(path)
        if key.split("/", 1)[0] in self.store.shared_products:
            f = self.store.shared_handles.get(key)
            if f is None:
                f = self.store.shared_handles[key] = TracedFile(self.store, key, self.store.files[key])
                f.shared = True
            self.store.log("open", key, f.handle)
            f.pos = 0
            return f
        f = TracedFile(self.store, key, self.store.files[key])
        self.store.log("open", key, f.handle)
        return f

    def open(self, path, mode="rb", **kwargs):
        return self._open(path, mode=mode, **kwargs)


_registered = False


def register():
    global _registered
    if not _registered:
        fsspec.register_implementation("vtrace", VTraceFileSystem, clobber=True)
        _registered = True
