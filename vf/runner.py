"""Generic driver: generate cases (Hypothesis or enumeration) -> run_case -> oracle verdicts,
known-finding filtering, collect-then-shrink, sharding, evidence and replay files."""

import collections
import importlib
import json
import multiprocessing
import os
import pathlib
import re
import sys
import time
import traceback

from vf import harness, known

VERIF = pathlib.Path(__file__).resolve().parent.parent
# the registered commands write to /verif/evidence; sensitivity runs against scratch copies of the
# repo redirect both directories so that they never touch the committed evidence
EVIDENCE_DIR = pathlib.Path(os.environ.get("VERIF_EVIDENCE_DIR") or VERIF / "evidence")
REPLAY_DIR = pathlib.Path(os.environ.get("VERIF_REPLAY_DIR") or VERIF / "replays")
MAX_SAMPLES = 5


def bucket_of(d):
    where = re.sub(r"/imagery/[A-Za-z0-9_]+", "/imagery/*", d["where"])
    where = re.sub(r"\d+", "N", where)
    if d.get("context", {}).get("pair_index"):
        where += " [second product at the same path]"
    return f"{d['kind']}|{where}"


class Stats:
    def __init__(self):
        self.evaluations = 0
        self.nontrivial = set()
        self.distinct = set()
        self.labels = collections.Counter()
        self.samples = []
        self.excluded_known = collections.Counter()
        self.failures = {}  # bucket -> (size, case, discs)
        self.stage_info = []
        self.exhaustive = None
        self.skipped_budget = 0
        self.out_of_domain = 0
        self.cases_seen = 0

    def merge(self, other):
        self.evaluations += other.evaluations
        self.nontrivial |= other.nontrivial
        self.distinct |= other.distinct
        self.labels.update(other.labels)
        for s in other.samples:
            if len(self.samples) < MAX_SAMPLES:
                self.samples.append(s)
        self.excluded_known.update(other.excluded_known)
        for b, f in other.failures.items():
            if b not in self.failures or f[0] < self.failures[b][0]:
                self.failures[b] = f
        self.stage_info.extend(other.stage_info)
        self.skipped_budget += other.skipped_budget
        self.out_of_domain += other.out_of_domain
        if other.exhaustive is False:
            self.exhaustive = False
        elif other.exhaustive and self.exhaustive is None:
            self.exhaustive = True


class OutOfDomain(Exception):
    """raised by run_case when a generated case is outside the property's domain"""


SetupViolation = harness.SetupViolation


class CaseTimeout(BaseException):
    pass


CASE_TIMEOUT_S = 120
HARD_KILL_MARGIN_S = 20
WORKER_MEMORY_LIMIT = 12 * 2**30


def heartbeat(case):
    """record the case that is about to run: the supervising parent process uses the file's age to
    detect a case that never comes back (a hang inside C code ignores SIGALRM) and its content to
    name the case when the worker dies (killed by the watchdog, by the OOM killer, by a crash)"""
    path = os.environ.get("VERIF_HB_FILE")
    if not path:
        return
    tmp = path + ".tmp"
    with open(tmp, "w") as f:
        f.write(harness.canonical(case))
    os.replace(tmp, path)


def touch():
    """a long case tells the supervisor that it is still making progress"""
    path = os.environ.get("VERIF_HB_FILE")
    if path and os.path.exists(path):
        os.utime(path)


def call_run_case(prop, case, beat=True):
    """run_case under a watchdog (main thread of the worker); a case that does not come back is a
    discrepancy ('did-not-terminate'), never a hang of the check"""
    import signal

    limit = getattr(prop, "CASE_TIMEOUT_S", CASE_TIMEOUT_S)
    limit *= int(os.environ.get("VERIF_TIMEOUT_SCALE", "1"))
    if isinstance(case, dict) and case.get("case_timeout_s"):
        # a deliberately big case: it reports progress itself (touch()) for the process watchdog
        limit = int(case["case_timeout_s"])
    if beat:
        heartbeat(case)
    if "__pair__" in case:
        return run_pair(prop, case)
    if "setup-of-stage" in case:
        # replay of a finding made while a stage prepared its reference state
        for tier in ("quick", "thorough"):
            for stage in prop.plan(tier):
                if stage["name"] == case["setup-of-stage"] and stage["kind"] == "enum":
                    try:
                        cases = stage["cases"]() if callable(stage["cases"]) else stage["cases"]
                        next(iter(cases), None)
                    except SetupViolation as e:
                        return [e.disc]
                    return []
        return []

    def handler(signum, frame):
        raise CaseTimeout()

    try:
        old = signal.signal(signal.SIGALRM, handler)
    except ValueError:  # not in the main thread
        return prop.run_case(case)
    signal.alarm(limit)
    try:
        return prop.run_case(case)
    except SetupViolation as e:
        return [e.disc]
    except CaseTimeout:
        return [harness.disc("did-not-terminate", "case", f"a result within {limit} s", "still running")]
    finally:
        signal.alarm(0)
        signal.signal(signal.SIGALRM, old)


def run_pair(prop, case):
    """in-place pair: the two products of the pair are materialised one after the other at the
    same root (same path / URL, same file names), the second replacing the first - what a
    re-delivered product looks like to a long-running process.  Both are judged by the
    property's ordinary oracle; anything remembered from the first product (module-level memos
    keyed by path, cached handles, stale indexes) shows up as a discrepancy of the second."""
    out = []
    old = harness.FIXED_NAME
    harness.FIXED_NAME = f"reuse-{os.getpid()}-{harness.case_hash(case)[:10]}"
    try:
        for index, sub in enumerate(case["__pair__"]):
            harness.PAIR_INDEX = index
            for d in call_run_case(prop, sub, beat=False):
                d.setdefault("context", {})["pair_index"] = index
                out.append(d)
    finally:
        harness.FIXED_NAME = old
        harness.PAIR_INDEX = None
    return out


def sub_case(case, d):
    if "__pair__" in case:
        return case["__pair__"][d.get("context", {}).get("pair_index", 0)]
    return case


def load_prop(pid):
    return importlib.import_module(f"vf.props.{pid.lower()}")


def abbreviate(case, limit=1200):
    text = harness.canonical(case)
    if len(text) <= limit:
        return json.loads(text)

    def cut(o, depth=0):
        if isinstance(o, dict):
            return {k: cut(v, depth + 1) for k, v in list(o.items())[:40]}
        if isinstance(o, list):
            if len(o) > 8:
                return [cut(v, depth + 1) for v in o[:6]] + [f"... ({len(o)} items)"]
            return [cut(v, depth + 1) for v in o]
        if isinstance(o, str) and len(o) > 120:
            return o[:100] + f"... ({len(o)} chars)"
        return o

    return cut(json.loads(text))


def account(prop, case, stats):
    """count one executed case (evaluations, distinct / non-trivial sets, labels, samples)"""
    h = harness.case_hash(case)
    if "__pair__" in case:
        nontrivial, labels = prop.classify(case["__pair__"][1])
        labels = ["in-place-pair"] + [f"pair:{l}" for l in labels[:3]]
    else:
        nontrivial, labels = prop.classify(case)
    units = getattr(prop, "sub_units", None) if "__pair__" not in case else None
    if units is not None:
        # a case bundles several evaluations (e.g. a batch of index expressions)
        n = 0
        for key, unit_nontrivial in units(case):
            n += 1
            uh = harness.case_hash(key)
            stats.distinct.add(uh)
            if unit_nontrivial:
                stats.nontrivial.add(uh)
        stats.evaluations += n
    else:
        stats.evaluations += 1
        stats.distinct.add(h)
        if nontrivial:
            stats.nontrivial.add(h)
    stats.labels.update(labels)
    notes = getattr(prop, "NOTES", None)
    if notes:
        if any(str(k).startswith("inexhaustive:") for k in notes):
            stats.exhaustive = False  # the case itself says that it did not finish its enumeration
        stats.labels.update(notes)
        notes.clear()
    stats.cases_seen += 1
    if len(stats.samples) < MAX_SAMPLES and (nontrivial or stats.cases_seen > 20):
        if stats.cases_seen % 7 == 1 or len(stats.samples) == 0:
            stats.samples.append(abbreviate(case))


def judge(prop, case, discs, stats, open_known):
    """filter known findings, bucket the rest; returns the unknown discrepancies"""
    unknown = []
    for d in discs:
        kid = known.match(prop.ID, sub_case(case, d), d, open_known)
        if kid:
            stats.excluded_known[kid] += 1
        else:
            unknown.append(d)
    if unknown:
        size = len(harness.canonical(case))
        for d in unknown:
            b = bucket_of(d)
            if b not in stats.failures or size < stats.failures[b][0]:
                if b not in stats.failures:
                    _log_failure(b, size, case, unknown)
                stats.failures[b] = (size, case, unknown)
    return unknown


def _log_failure(bucket, size, case, discs):
    """first failure of every root cause goes to a side file at once, so that it survives a
    worker that is killed later in the same run"""
    path = os.environ.get("VERIF_FAIL_FILE")
    if not path:
        return
    with open(path, "a") as f:
        f.write(json.dumps({"bucket": bucket, "size": size, "case": json.loads(harness.canonical(case)),
                            "discs": json.loads(harness.canonical(discs[:20]))}) + "\n")


def process_case(prop, case, stats, open_known):
    """run one case; returns the list of unknown discrepancies"""
    try:
        discs = call_run_case(prop, case)
    except OutOfDomain:
        stats.out_of_domain += 1
        return []
    account(prop, case, stats)
    return judge(prop, case, discs, stats, open_known)


def run_fuzz_stage(prop, stage, seed_value, stats, open_known, deadline):
    """atheris / libFuzzer campaign in a subprocess; the oracle is inside the fuzz target"""
    import shutil
    import subprocess
    import tempfile

    try:
        subprocess.run([sys.executable, "-c", "import atheris"], check=True, capture_output=True, env=dict(os.environ))
    except subprocess.CalledProcessError:
        stats.labels["fuzz-skipped:atheris-not-importable"] += 1
        return
    # the campaign is bounded by its own time budget (subprocess timeout below)
    heartbeat({"__unsupervised__": f"fuzz stage {stage['target']}"})
    out = pathlib.Path(tempfile.mkdtemp(prefix="vffuzz-", dir=harness.scratch_root()))
    corpus = out / "corpus"
    corpus.mkdir()
    for i, seed_input in enumerate(stage.get("corpus", [])):
        (corpus / f"seed{i}").write_bytes(seed_input)
    budget = int(max(5, min(stage["seconds"], deadline - time.monotonic())))
    flags = [str(corpus), f"-seed={seed_value % (2**31) or 1}", f"-max_total_time={budget}", f"-max_len={stage.get('max_len', 512)}", "-print_final_stats=1"]
    if stage.get("dict"):
        (out / "dict.txt").write_text("\n".join(f'"{t}"' for t in stage["dict"]) + "\n")
        flags.append(f"-dict={out / 'dict.txt'}")
    r = subprocess.run([sys.executable, "-m", "vf.fuzz", prop.ID, stage["target"], str(out), *flags],
                       capture_output=True, text=True, env=dict(os.environ), timeout=budget + 120)
    count = {"n": 0, "judged": 0}
    if (out / "count.json").exists():
        count = json.loads((out / "count.json").read_text())
    stats.evaluations += count["n"]
    stats.labels[f"fuzz:{stage['target']}:executions"] += count["n"]
    stats.labels[f"fuzz:{stage['target']}:judged"] += count["judged"]
    if (out / "finding.json").exists():
        finding = json.loads((out / "finding.json").read_text())
        case = {"kind": "fuzz-input", "target": stage["target"], "data": finding["data"]}
        account(prop, case, stats)
        judge(prop, case, finding["discrepancies"], stats, open_known)
    elif r.returncode not in (0,):
        raise RuntimeError(f"fuzzer failed rc={r.returncode}: {r.stderr[-400:]}")
    shutil.rmtree(out, ignore_errors=True)


def run_machine_stage(prop, stage, seed_value, stats, open_known, deadline, examples):
    """Hypothesis stateful mode: the machine applies operations and reports every step through
    `on_history`; a failing step raises inside the machine so that the library shrinks the rule
    sequence (each shrink attempt is reported too, the smallest failing history is kept)"""
    from hypothesis import HealthCheck, Phase, seed, settings
    from hypothesis.stateful import run_state_machine_as_test

    def on_history(case, discs, final):
        heartbeat(case)
        if time.monotonic() > deadline:
            return []
        if final:
            if case["ops"]:
                account(prop, case, stats)
            return []
        unknown = judge(prop, case, discs, stats, open_known)
        if unknown:
            seen_failure.append(1)
        return unknown

    seen_failure = []
    machine = stage["machine"](on_history)
    cfg = settings(
        max_examples=examples, stateful_step_count=stage.get("steps", 12), database=None, deadline=None,
        derandomize=False, report_multiple_bugs=False, suppress_health_check=list(HealthCheck),
        phases=[Phase.generate, Phase.shrink], print_blob=False,
    )
    from hypothesis.errors import HypothesisException

    try:
        run_state_machine_as_test(seed(seed_value)(machine), settings=cfg)
    except AssertionError:
        pass  # the verdict is in stats.failures (smallest failing history)
    except (HypothesisException, ExceptionGroup):
        # the same history gave different results when the library replayed it (Flaky,
        # FlakyStrategyDefinition, ...): the code under test keeps state between histories
        # (itself a history dependence).  The failing histories were recorded by on_history;
        # without any the exception is a harness error.
        if not seen_failure:
            raise
        stats.labels["machine:replay-gave-different-result"] += 1


def hyp_settings(examples, shrink=False):
    from hypothesis import HealthCheck, Phase, settings

    phases = [Phase.generate, Phase.shrink] if shrink else [Phase.generate]
    return settings(
        max_examples=examples,
        database=None,
        deadline=None,
        derandomize=False,
        report_multiple_bugs=False,
        suppress_health_check=list(HealthCheck),
        phases=phases,
        print_blob=False,
    )


def run_hyp_stage(prop, stage, seed_value, stats, open_known, deadline, examples):
    from hypothesis import given, seed

    @hyp_settings(examples)
    @seed(seed_value)
    @given(stage["strategy"])
    def collect(case):
        if time.monotonic() > deadline:
            stats.skipped_budget += 1
            return
        process_case(prop, case, stats, open_known)

    collect()


def shrink_bucket(prop, stage, seed_value, bucket, open_known, budget_s, examples):
    """second Hypothesis run with the same seed that fails on `bucket` and lets the library
    shrink it; returns the smallest failing (case, discs) seen"""
    from hypothesis import given, seed

    best = {}
    deadline = time.monotonic() + budget_s

    @hyp_settings(examples, shrink=True)
    @seed(seed_value)
    @given(stage["strategy"])
    def search(case):
        if time.monotonic() > deadline:
            return
        try:
            discs = call_run_case(prop, case)
        except OutOfDomain:
            return
        unknown = [d for d in discs if not known.match(prop.ID, sub_case(case, d), d, open_known)]
        if any(bucket_of(d) == bucket for d in unknown):
            size = len(harness.canonical(case))
            if not best or size <= best["size"]:
                best.update(size=size, case=case, discs=unknown)
            raise AssertionError(bucket)

    try:
        search()
    except BaseException:  # noqa: BLE001 - the verdict is in `best`
        pass
    return best


def _shrink_worker(pid, tier, stage_index, seed_value, bucket, budget_s, examples):
    prop = load_prop(pid)
    stage = [s for s in prop.plan(tier) if s["kind"] == "hyp"][stage_index]
    best = shrink_bucket(prop, stage, seed_value, bucket, known.open_entries(pid), budget_s, examples)
    return json.loads(harness.canonical(best)) if best else {}


def run_plan(pid, tier, seed_value, shard=(0, 1), budget_s=None):
    """run the whole plan of a property (one shard); returns Stats"""
    prop = load_prop(pid)
    open_known = known.open_entries(pid)
    stats = Stats()
    index, count = shard
    t0 = time.monotonic()
    deadline = t0 + (budget_s if budget_s else 10**9)
    for stage in prop.plan(tier):
        s0 = stats.evaluations
        if stage["kind"] == "hyp":
            examples = max(1, stage["examples"] // count)
            run_hyp_stage(prop, stage, seed_value * 1000 + index, stats, open_known, deadline, examples)
            if stats.exhaustive is None:
                stats.exhaustive = False
            stats.exhaustive = False
        elif stage["kind"] == "fuzz":
            if index == 0 or stage.get("shard_all"):
                run_fuzz_stage(prop, stage, seed_value * 1000 + index, stats, open_known, deadline)
            stats.exhaustive = False
        elif stage["kind"] == "machine":
            examples = max(1, stage["examples"] // count)
            run_machine_stage(prop, stage, seed_value * 1000 + index, stats, open_known, deadline, examples)
            stats.exhaustive = False
        else:
            complete = True
            try:
                cases = stage["cases"]() if callable(stage["cases"]) else stage["cases"]
                for i, case in enumerate(cases):
                    if i % count != index:
                        continue
                    if time.monotonic() > deadline:
                        stats.skipped_budget += 1
                        complete = False
                        continue
                    process_case(prop, case, stats, open_known)
            except SetupViolation as e:
                # the enumeration itself needs a reference state that the code under test cannot deliver
                complete = False
                setup_case = {"setup-of-stage": stage["name"]}
                stats.evaluations += 1
                judge(prop, setup_case, [e.disc], stats, open_known)
            if stage.get("exhaustive") and complete:
                if stats.exhaustive is None:
                    stats.exhaustive = True
            else:
                stats.exhaustive = False
        stats.stage_info.append(
            {"stage": stage["name"], "kind": stage["kind"], "shard": index, "evaluations": stats.evaluations - s0,
             "exhaustive": bool(stage.get("exhaustive")) and stage["kind"] == "enum" and stats.skipped_budget == 0}
        )
    return stats


def _limit_memory():
    """a runaway allocation in the code under test becomes a MemoryError inside the case (an
    'exception' discrepancy) instead of an OOM kill of the sandbox"""
    try:
        import resource

        soft, hard = resource.getrlimit(resource.RLIMIT_AS)
        limit = int(os.environ.get("VERIF_MEMORY_LIMIT", WORKER_MEMORY_LIMIT))
        if hard == resource.RLIM_INFINITY or limit < hard:
            resource.setrlimit(resource.RLIMIT_AS, (limit, hard))
    except (ImportError, ValueError, OSError):
        pass


def _child_main(conn, slot, fn, args):
    scratch = pathlib.Path(harness.scratch_root())
    os.environ["VERIF_HB_FILE"] = str(scratch / f"hb-{slot}.json")
    os.environ["VERIF_FAIL_FILE"] = str(scratch / f"fail-{slot}.jsonl")
    _limit_memory()
    try:
        result = ("ok", fn(*args))
    except BaseException as e:  # noqa: BLE001
        result = ("error", f"{type(e).__name__}: {e}\n{traceback.format_exc()}")
    try:
        conn.send(result)
    except Exception as e:  # noqa: BLE001 - e.g. an unpicklable payload
        conn.send(("error", f"result not transferable: {type(e).__name__}: {e}"))
    conn.close()


def supervise(jobs, limit_s, total_s=None):
    """run `jobs` = [(fn, args)] each in its own forked process and watch them: a process whose
    current case (heartbeat file) is older than `limit_s`, or that runs longer than `total_s`, is
    killed.  Returns one entry per job: ("ok", payload) | ("error", text) |
    ("killed" | "died", {"case": ..., "failures": [...]})."""
    ctx = multiprocessing.get_context("fork")
    scratch = pathlib.Path(harness.scratch_root())
    tag = f"{os.getpid()}-{time.monotonic_ns()}"
    running = {}
    for i, (fn, args) in enumerate(jobs):
        slot = f"{tag}-{i}"
        for name in (f"hb-{slot}.json", f"fail-{slot}.jsonl"):
            (scratch / name).unlink(missing_ok=True)
        recv, send = ctx.Pipe(duplex=False)
        proc = ctx.Process(target=_child_main, args=(send, slot, fn, args), daemon=False)
        proc.start()
        send.close()
        running[i] = (proc, recv, slot, time.monotonic())
    results = {}

    def post_mortem(slot):
        hb = scratch / f"hb-{slot}.json"
        ff = scratch / f"fail-{slot}.jsonl"
        case = None
        if hb.exists():
            try:
                case = harness.revive(json.loads(hb.read_text()))
            except ValueError:
                case = None
        failures = []
        if ff.exists():
            for line in ff.read_text().splitlines():
                try:
                    failures.append(harness.revive(json.loads(line)))
                except ValueError:
                    pass
        return {"case": case, "failures": failures}

    while running:
        for i in list(running):
            proc, recv, slot, started = running[i]
            verdict = None
            if recv.poll():
                try:
                    results[i] = recv.recv()
                except (EOFError, OSError):
                    verdict = "died"
                else:
                    proc.join(10)
                    if proc.is_alive():
                        proc.kill()
                    del running[i]
                    continue
            elif not proc.is_alive():
                if recv.poll():
                    continue  # result arrived between the two tests: next round picks it up
                verdict = "died"
            else:
                hb = scratch / f"hb-{slot}.json"
                now = time.time()
                try:
                    age = now - hb.stat().st_mtime
                except OSError:
                    age = 0
                if age > limit_s:
                    try:
                        unsupervised = "__unsupervised__" in hb.read_text()[:40]
                    except OSError:
                        unsupervised = False
                    if not unsupervised:
                        verdict = "killed"
                if total_s and time.monotonic() - started > total_s:
                    verdict = "killed"
            if verdict:
                if proc.is_alive():
                    proc.kill()
                proc.join(10)
                info = post_mortem(slot)
                info["exitcode"] = proc.exitcode
                results[i] = (verdict, info)
                del running[i]
        time.sleep(0.1)
    for i in range(len(jobs)):
        slot = f"{tag}-{i}"
        for name in (f"hb-{slot}.json", f"hb-{slot}.json.tmp", f"fail-{slot}.jsonl"):
            (scratch / name).unlink(missing_ok=True)
    return [results[i] for i in range(len(jobs))]


def _plan_worker(pid, tier, seed_value, shard, budget_s):
    # a private user cache dir per worker (set before ceos_alos2 is first imported)
    home = pathlib.Path(os.environ["XDG_CACHE_HOME"]) / f"worker-{shard[0]}"
    home.mkdir(parents=True, exist_ok=True)
    os.environ["XDG_CACHE_HOME"] = str(home)
    return run_plan(pid, tier, seed_value, shard, budget_s)


def stats_from_post_mortem(prop, verdict, info, limit_s):
    """a worker that was killed (its case never came back) or died (OOM kill, crash of the
    interpreter) is a finding about the case it was running, not a harness error: the code under
    test made a process unusable.  What the worker had already found is recovered from its
    failure log."""
    stats = Stats()
    stats.exhaustive = False
    stats.labels[f"worker-{verdict}"] += 1
    for f in info["failures"]:
        stats.failures[f["bucket"]] = (f["size"], f["case"], f["discs"])
    case = info["case"]
    if case is not None:
        if verdict == "killed":
            d = harness.disc("did-not-terminate", "case", f"a result within {limit_s} s", "still running (process killed by the watchdog)")
        else:
            d = harness.disc("process-died", "case", "a result", f"worker process died (exit code {info.get('exitcode')})")
        stats.failures.setdefault(bucket_of(d), (len(harness.canonical(case)), case, [d]))
        stats.evaluations += 1
    return stats


def run_check(pid, tier, seed_value, jobs, budget_s):
    prop = load_prop(pid)
    t0 = time.monotonic()
    jobs = max(1, jobs)
    limit_s = getattr(prop, "CASE_TIMEOUT_S", CASE_TIMEOUT_S) + HARD_KILL_MARGIN_S
    results = supervise(
        [(_plan_worker, (pid, tier, seed_value, (i, jobs), budget_s)) for i in range(jobs)], limit_s,
        total_s=(budget_s or 10**9) + 4 * limit_s,
    )
    stats = Stats()
    hung = set()
    for status, payload in results:
        if status == "error":
            raise RuntimeError(f"worker failed: {payload}")
        if status == "ok":
            stats.merge(payload)
        else:
            if payload["case"] is None and not payload["failures"]:
                raise RuntimeError(f"worker {status} before it ran a case (exit code {payload.get('exitcode')})")
            pm = stats_from_post_mortem(prop, status, payload, limit_s)
            hung |= {b for b in pm.failures if b.startswith(("did-not-terminate", "process-died"))}
            stats.merge(pm)

    confirm_timeouts(pid, prop, stats, hung, limit_s)
    open_known = known.open_entries(pid)
    # shrink (Hypothesis stages) up to three root causes
    replay_paths = []
    if stats.failures:
        REPLAY_DIR.mkdir(exist_ok=True)
        hyp_stages = [s for s in prop.plan(tier) if s["kind"] == "hyp"]
        shrink_budget = 20 if tier == "quick" else 240
        for n, (bucket, (size, case, discs)) in enumerate(sorted(stats.failures.items())):
            best = {"case": case, "discs": discs}
            if n < 3 and getattr(prop, "SHRINK", True) and bucket not in hung:
                for si, stage in enumerate(hyp_stages):
                    for shard in range(max(1, jobs)):
                        examples = max(1, stage["examples"] // max(1, jobs))
                        per_stage = shrink_budget / max(1, len(hyp_stages))
                        # in a child process: the same seed replays the same cases, including
                        # one that hangs or kills the process
                        (status, got), = supervise(
                            [(_shrink_worker, (pid, tier, si, seed_value * 1000 + shard, bucket, per_stage, examples))],
                            limit_s, total_s=per_stage + limit_s,
                        )
                        if status != "ok":
                            got = {}
                        if got and got["size"] <= len(harness.canonical(best["case"])):
                            best = got
                        if got:
                            break
            name = re.sub(r"[^A-Za-z0-9]+", "_", bucket)[:80]
            path = REPLAY_DIR / f"{pid}-{name}.json"
            harness.dump_json(
                {"property": pid, "bucket": bucket, "case": best["case"], "discrepancies": best["discs"][:20]},
                path,
            )
            replay_paths.append((bucket, path, best))

    wall = time.monotonic() - t0
    write_evidence(prop, tier, seed_value, stats, wall, len(replay_paths))
    return stats, replay_paths, open_known


def confirm_timeouts(pid, prop, stats, hung, limit_s):
    """a case that did not come back in time is run once more, alone in a fresh process and with
    three times the limit, before it counts: a time limit hit on a loaded machine is
    'inconclusive', only a case that again fails to terminate (or dies) is a finding"""
    for bucket in [b for b in stats.failures if b.startswith(("did-not-terminate", "process-died"))]:
        size, case, discs = stats.failures[bucket]
        os.environ["VERIF_TIMEOUT_SCALE"] = "3"
        try:
            (status, payload), = supervise([(_replay_worker, (pid, case))], 3 * limit_s)
        finally:
            os.environ.pop("VERIF_TIMEOUT_SCALE", None)
        if status != "ok":
            continue  # killed / died again (or the harness failed): the finding stands
        again = harness.revive(payload)
        del stats.failures[bucket]
        hung.discard(bucket)
        open_known = known.open_entries(pid)
        unknown = [d for d in again if not known.match(pid, sub_case(case, d), d, open_known)]
        if not unknown:
            stats.labels["inconclusive:time-limit-hit-but-not-reproduced"] += 1
            print(f"INCONCLUSIVE property={pid} a case hit the time limit ({bucket}) and finished when run again alone", flush=True)
            continue
        for d in unknown:
            stats.failures.setdefault(bucket_of(d), (size, case, [d]))
        if any(b.startswith("did-not-terminate") for b in (bucket_of(d) for d in unknown)):
            hung.add(bucket_of(unknown[0]))


def write_evidence(prop, tier, seed_value, stats, wall, violations):
    coverage = {
        "evaluations": stats.evaluations,
        "distinct_nontrivial": len(stats.nontrivial),
        "distinct_cases": len(stats.distinct),
        "rule": prop.RULE,
        "samples": stats.samples[:MAX_SAMPLES],
        "label_histogram": dict(sorted(stats.labels.items())),
        "excluded_known": dict(stats.excluded_known),
        "exhaustive": bool(stats.exhaustive),
        "stages": merge_stage_info(stats.stage_info),
        "skipped_for_budget": stats.skipped_budget,
        "out_of_domain": stats.out_of_domain,
    }
    evidence = {
        "property_id": prop.ID,
        "tier": tier,
        "seed": seed_value,
        "level": prop.LEVEL,
        "coverage": coverage,
        "assumptions": list(prop.ASSUMPTIONS),
        "wall_s": round(wall, 2),
        "violations": violations,
    }
    if harness.REPO != "/repo" and not os.environ.get("VERIF_EVIDENCE_DIR"):
        return  # a run against a scratch copy never rewrites the evidence of /repo
    harness.dump_json(evidence, EVIDENCE_DIR / f"{prop.ID}.json")


def merge_stage_info(infos):
    merged = collections.OrderedDict()
    for i in infos:
        key = (i["stage"], i["kind"])
        m = merged.setdefault(key, {"evaluations": 0, "exhaustive": True})
        m["evaluations"] += i["evaluations"]
        m["exhaustive"] = m["exhaustive"] and i.get("exhaustive", False)
    return [{"stage": k[0], "kind": k[1], **v} for k, v in merged.items()]


def _replay_worker(pid, case):
    discs = call_run_case(load_prop(pid), case)
    return json.loads(harness.canonical(discs))


def replay(pid, path):
    prop = load_prop(pid)
    doc = harness.revive(json.loads(pathlib.Path(path).read_text()))
    case = doc["case"] if "case" in doc else doc
    open_known = known.open_entries(pid)
    limit_s = getattr(prop, "CASE_TIMEOUT_S", CASE_TIMEOUT_S) + HARD_KILL_MARGIN_S
    (status, payload), = supervise([(_replay_worker, (pid, case))], limit_s)
    if status == "error":
        raise RuntimeError(payload)
    if status == "ok":
        discs = payload
    elif status == "killed":
        discs = [harness.disc("did-not-terminate", "case", f"a result within {limit_s} s", "still running (process killed by the watchdog)")]
    else:
        discs = [harness.disc("process-died", "case", "a result", f"process died (exit code {payload.get('exitcode')})")]
    unknown = [d for d in discs if not known.match(pid, sub_case(case, d), d, open_known)]
    for d in discs:
        tag = "UNKNOWN" if d in unknown else "known"
        print(f"  [{tag}] {d['kind']} at {d['where']}: expected {d['expected']} observed {d['observed']}")
    return unknown


def main(argv=None):
    import argparse

    parser = argparse.ArgumentParser()
    parser.add_argument("pid")
    parser.add_argument("--tier", default=os.environ.get("VERIF_TIER", "quick"), choices=["quick", "thorough"])
    parser.add_argument("--replay")
    parser.add_argument("--jobs", type=int, default=None)
    parser.add_argument("--budget", type=float, default=None, help="wall budget in seconds")
    args = parser.parse_args(argv)
    pid = args.pid.upper()
    seed_value = int(os.environ.get("VERIF_SEED", "1") or "1")

    try:
        if args.replay:
            unknown = replay(pid, args.replay)
            if unknown:
                print(f"VIOLATION property={pid} replay={args.replay}")
                return 1
            print(f"replay of {args.replay}: property {pid} holds")
            return 0
        prop = load_prop(pid)
        jobs = args.jobs
        if jobs is None:
            jobs = getattr(prop, "JOBS", {}).get(args.tier, 1 if args.tier == "quick" else 16)
        budget = args.budget
        if budget is None:
            budget = getattr(prop, "BUDGET", {}).get(args.tier, 150 if args.tier == "quick" else 1500)
        stats, replays, open_known = run_check(pid, args.tier, seed_value, jobs, budget)
    except Exception as e:  # noqa: BLE001 - harness error, never a VIOLATION
        traceback.print_exc()
        print(f"HARNESS-ERROR property={pid} {type(e).__name__}: {e}")
        return 2

    for entry in open_known:
        print(f"KNOWN-FINDING: property={pid} {entry['id']}: {entry['what']} (filtered {stats.excluded_known.get(entry['id'], 0)} discrepancies)")
    print(
        f"{pid} tier={args.tier} seed={seed_value} evaluations={stats.evaluations} "
        f"distinct_nontrivial={len(stats.nontrivial)} exhaustive={bool(stats.exhaustive)} "
        f"skipped_for_budget={stats.skipped_budget}"
    )
    if replays:
        for bucket, path, best in replays:
            d = next((x for x in best["discs"] if bucket_of(x) == bucket), best["discs"][0])
            print(f"  root cause {bucket}: expected {d['expected']} observed {d['observed']}")
            print(f"VIOLATION property={pid} replay={path}")
        return 1
    print(f"{pid}: property held on everything explored")
    return 0


if __name__ == "__main__":
    sys.exit(main())
