"""entry point (`python -m vf.cli`): keeps vf.runner a normally imported module, so the exception
classes the property modules import from it are the ones the driver catches"""
import sys

from vf.runner import main

if __name__ == "__main__":
    sys.exit(main())
