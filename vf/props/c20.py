"""C20 Blank fields mean 'missing' and padding never influences the result."""

import functools
import random

from hypothesis import strategies as st

from vf import harness
from vf.ceosgen import layout, model, product
from vf.props import c03, c04, common

ID = "C20"
LEVEL = "exploration"
RULE = (
    "Base products (levels 1.1 and 1.5, map projection present, every field filled) are varied: "
    "(a) 'blank-one': every nullable (class value) ASCII field of the leader, volume directory "
    "and image descriptor blanked individually (enumerated; one representative per array element "
    "class in quick, all elements in thorough); 'blank-subset': Hypothesis-drawn random subsets; "
    "(b) 'pad-one' / 'pad-all': every spare / blank / reserved area of every record (leader, "
    "volume directory, image descriptor, every line record) overwritten with generated content of "
    "its class (printable ASCII, numbers for numeric spares, arbitrary bytes for binary ones); "
    "(c) thorough only, 'byte': every byte of the leader and of the first line-record prefix is "
    "changed to another value of its class and the set of changed leaves is compared with the "
    "layout (padding bytes change nothing, a value-field byte changes at most that field's "
    "leaves). Oracle: (a) full reference-model comparison of the variant (blank -> NaN / -1 / '' "
    "or absent header attribute, no exception, no fabricated leaf, every other leaf as written); "
    "(b),(c) metamorphic: tree identical to the base tree / difference confined to the field's "
    "leaves. Non-trivial: the varied region is non-empty and the base content differed."
    " Complex entries are additionally blanked one numeric column at a time (that half must be NaN; the written half as written or NaN)."
    " Blank fields of the image files (descriptor and line records) are also judged on the tree returned by an open that writes the index cache and on a tree served from that cache (the index must not invent or drop anything for a blank field)."
)
ASSUMPTIONS = [
    "which fields are nullable is stated in vf/ceosgen/product.py (counts, lengths, code/flag columns and date-time texts are required)",
    "frozen layout + exposure tables",
]
BUDGET = {"quick": 140, "thorough": 2400}
JOBS = {"quick": 4, "thorough": 16}

BASES = {
    "L11": {"level": "1.1", "images": [{"lines": 3, "pixels": 2}], "vseed": 11, "policy": "blank",
            "leader": {"map_projection": True, "designator": "UTM-PROJECTION", "n_att": 2, "n_channels": 2}},
    "L15": {"level": "1.5", "images": [{"lines": 3, "pixels": 2}], "vseed": 15, "policy": "blank",
            "leader": {"map_projection": True, "designator": "LCC-PROJECTION", "n_att": 2, "n_channels": 2}},
}
REQUIRED = {
    "leader": product.LEADER_REQUIRED,
    "volume": product.VOLUME_REQUIRED,
    "header": product.IMAGE_DESCRIPTOR_REQUIRED,
    "lines": (),
}


@functools.lru_cache(maxsize=None)
def base(name):
    spec = common.spec_from(BASES[name])
    files, info = product.build_product(spec)
    prod = harness.Materialised(files, "memory").__enter__()
    tree, flat = harness.reference_open(prod.url, use_cache=False)
    return spec, info, flat


def all_leaves(info):
    """(file kind, image index, line index, leaf)"""
    for leaf in info["leader_leaves"]:
        yield "leader", None, None, leaf
    for leaf in info["volume_leaves"]:
        yield "volume", None, None, leaf
    for k, iinfo in enumerate(info["images"]):
        for leaf in iinfo["header_leaves"]:
            yield "header", k, None, leaf
        for i, leaves in enumerate(iinfo["line_leaves"]):
            for leaf in leaves:
                yield "lines", k, i, leaf


def leaf_kind(kind, leaf):
    return product.leaf_class(leaf.path, leaf.node, REQUIRED[kind])


def nullable(kind, leaf):
    return leaf_kind(kind, leaf) == "value" and leaf.codec in layout.ASCII_CODECS and leaf.width > 0


def targets(name, what):
    _, info, _ = base(name)
    out = []
    for kind, k, i, leaf in all_leaves(info):
        if what == "blank" and nullable(kind, leaf):
            out.append((kind, k, i, leaf))
        elif what == "pad" and leaf_kind(kind, leaf) == "padding" and leaf.width > 0:
            out.append((kind, k, i, leaf))
    return out


def put(changes, kind, k, i, path, value):
    if kind in ("leader", "volume"):
        changes.setdefault(kind, {})[path] = value
    elif kind == "header":
        changes.setdefault("header", {}).setdefault(k, {})[path] = value
    else:
        changes.setdefault("lines", {}).setdefault(k, {}).setdefault(i, {})[path] = value


def pad_content(leaf, rng, style=None):
    filler = product.Filler(rng, "decoy")
    for _ in range(20):
        if leaf.codec == "A-str" and style is not None:
            # text areas: any printable ASCII - once as free text (certainly not a number), once as numbers
            v = product.V.filler_text(leaf.width, rng, "printable" if style == "text" else "numbers")
            if style == "text":
                v = (rng.choice("ABCXYZ#~") + v[1:])[: leaf.width]
        else:
            v = filler.padding(leaf.node, leaf.width, leaf.codec)
        if v is not None and layout.encode_leaf(leaf.codec, leaf.width, v) != layout.encode_leaf(leaf.codec, leaf.width, leaf.value):
            return v
    return None


def open_variant(spec, info, changes, open_mode="plain"):
    vspec = product.pinned_spec(spec, info, changes)
    files, vinfo = product.build_product(vspec)
    with common.open_in_mode(files, vinfo["names"]["sar_imagery"], open_mode or "plain") as (tree, err):
        if err is not None:
            return vspec, vinfo, None, err
        flat, err = harness.guard(harness.flatten, tree)
        return vspec, vinfo, flat, err


def model_check(vspec, vinfo, flat):
    out = c04.check_leader(vinfo, vspec, flat)
    out += model.check_root_attrs(vinfo["volume_leaves"], {k: v for k, v in flat.items() if k.startswith("/@")}, harness.disc)
    for iinfo, gname in zip(vinfo["images"], common.group_names(vspec)):
        out += model.check_image_group(iinfo, gname, flat, harness.disc)
    return out


def allowed_keys(name, kind, leaf):
    """leaves that a change of this field may touch"""
    spec, info, _ = base(name)
    if kind == "leader":
        table = model.leader_table(spec["leader"])
    elif kind == "volume":
        table = model.exposure("volume")
    else:
        return None
    entry = table["fields"].get(model.generic(leaf.path))
    keys = set()
    if entry:
        for e in entry["exposures"]:
            keys.add(e["key"])
        for var in entry.get("variants", []):
            for e in var["exposures"]:
                keys.add(e["key"])
    return keys


def run_case(case):
    name = case["base"]
    spec, info, base_flat = base(name)
    mode = case["mode"]
    changes = {}
    if mode in ("blank-one", "blank-subset", "blank-group"):
        tg = targets(name, "blank")
        if mode == "blank-one":
            picked = [tg[case["index"]]]
        elif mode == "blank-group":
            # every value field under one path prefix: a whole array element / sub-record is blank
            picked = [t for t in tg if t[0] == case["kind"] and (t[3].path + "/").startswith(case["prefix"] + "/")]
        else:
            rng = random.Random(case["sseed"])
            picked = [t for t in tg if rng.random() < case["fraction"]]
        sub_rng = random.Random(case.get("sseed", 0))
        for kind, k, i, leaf in picked:
            value = " " * leaf.width
            half = case.get("half") if mode == "blank-one" else (sub_rng.choice([None, None, "real", "imag"]) if leaf.codec == "A-complex" else None)
            if leaf.codec == "A-complex" and half:
                # a complex entry is two numeric columns: blank only one of them
                text = model.text_of(layout.encode_leaf(leaf.codec, leaf.width, leaf.value))
                h = leaf.width // 2
                value = (" " * h + text[h:]) if half == "real" else (text[:h] + " " * (leaf.width - h))
            put(changes, kind, k, i, leaf.path, value)
        vspec, vinfo, flat, err = open_variant(spec, info, changes, case.get("open_mode"))
        if err is not None:
            return [harness.disc("exception", "open_alos2 with blank field(s)", "a tree", harness.exc_text(err), fields=[t[3].path for t in picked][:5])]
        out = model_check(vspec, vinfo, flat)
        for d in out:
            d.setdefault("context", {})["blanked"] = [t[3].path for t in picked][:5]
            if case.get("open_mode"):
                d["context"]["open_mode"] = case["open_mode"]
        return out
    if mode in ("pad-one", "pad-all"):
        tg = targets(name, "pad")
        rng = random.Random(case.get("sseed", case.get("index", 0)))
        picked = [tg[case["index"]]] if mode == "pad-one" else tg
        for kind, k, i, leaf in picked:
            v = pad_content(leaf, rng, case.get("style"))
            if v is not None:
                put(changes, kind, k, i, leaf.path, v)
        vspec, vinfo, flat, err = open_variant(spec, info, changes)
        if err is not None:
            return [harness.disc("exception", "open_alos2 with rewritten padding", "a tree", harness.exc_text(err), fields=[t[3].path for t in picked][:5])]
        out = harness.diff_flat(base_flat, flat, kind="padding-influences-result")
        for d in out:
            d.setdefault("context", {})["padding"] = [t[3].path for t in picked][:5]
        return out
    if mode == "byte":
        return run_byte_case(case, spec, info, base_flat)
    raise ValueError(mode)


def byte_targets(name):
    _, info, _ = base(name)
    out = []
    for kind, k, i, leaf in all_leaves(info):
        if kind == "lines" and i > 0:
            continue
        if kind in ("volume", "header"):
            continue
        for b in range(leaf.width):
            out.append((kind, k, i, leaf, b))
    return out


def other_of_class(ch, rng, free):
    if free:
        return rng.choice([c for c in range(0x20, 0x7F) if c != ch])
    if 0x30 <= ch <= 0x39:
        return rng.choice([c for c in range(0x30, 0x3A) if c != ch])
    return None


def run_byte_case(case, spec, info, base_flat):
    name = case["base"]
    out = []
    tg = byte_targets(name)
    rng = random.Random(case["start"])
    for kind, k, i, leaf, b in tg[case["start"]: case["start"] + case["count"]]:
        cls = leaf_kind(kind, leaf)
        if cls not in ("padding", "value"):
            continue
        raw = bytearray(layout.encode_leaf(leaf.codec, leaf.width, leaf.value))
        if leaf.codec in layout.ASCII_CODECS:
            free = cls == "padding" and leaf.codec == "A-str" or (cls == "value" and leaf.codec == "A-str")
            new = other_of_class(raw[b], rng, free)
            if new is None:
                continue
            raw[b] = new
            value = bytes(raw)
        elif leaf.codec in layout.BIN_FMT or leaf.codec == "bytes":
            raw[b] ^= 1 << rng.randrange(8)
            value = int.from_bytes(raw, "big") if leaf.codec in layout.BIN_FMT else bytes(raw)
        else:
            continue
        changes = {}
        put(changes, kind, k, i, leaf.path, value)
        _, _, flat, err = open_variant(spec, info, changes)
        where = f"{kind}:{leaf.path}"
        if err is not None:
            out.append(harness.disc("exception", "open_alos2 after a byte change", "a tree", harness.exc_text(err), field=where, byte=b))
            continue
        changed = {d["where"] for d in harness.diff_flat(base_flat, flat)}
        if cls == "padding":
            if changed:
                out.append(harness.disc("padding-influences-result", sorted(changed)[0], "no change", f"{len(changed)} leaves changed", field=where, byte=b))
            continue
        allowed = allowed_keys(name, kind, leaf)
        if allowed is None:
            # line record field: only leaves of that image group may change
            bad = [c for c in changed if not c.startswith("/imagery/")]
        else:
            bad = [c for c in changed if c not in allowed]
        if bad:
            out.append(harness.disc("influence-outside-field", sorted(bad)[0], f"only {sorted(allowed or ['/imagery/*'])[:3]}", f"{len(bad)} foreign leaves changed", field=where, byte=b))
    return out


def sub_units(case):
    if case["mode"] == "byte":
        for n in range(case["count"]):
            yield [case["base"], "byte", case["start"] + n], True
    else:
        yield case, True


def enum_cases(tier):
    for name in BASES:
        for what, mode in (("blank", "blank-one"), ("pad", "pad-one")):
            tg = targets(name, what)
            seen = set()
            for index, (kind, k, i, leaf) in enumerate(tg):
                if tier == "quick":
                    # one representative per generic field (array elements share a field)
                    key = (kind, model.generic(leaf.path), None if kind != "lines" else 0)
                    if key in seen:
                        continue
                    seen.add(key)
                if mode == "pad-one":
                    yield {"base": name, "mode": mode, "index": index, "style": "text"}
                    if leaf.codec == "A-str":
                        yield {"base": name, "mode": mode, "index": index, "style": "numbers"}
                else:
                    yield {"base": name, "mode": mode, "index": index}
                    if kind in ("header", "lines"):
                        # fields of the image files also travel through the index cache: the tree
                        # returned by the cache-writing open and the tree served from the cache
                        yield {"base": name, "mode": mode, "index": index, "open_mode": "creating"}
                        yield {"base": name, "mode": mode, "index": index, "open_mode": "cached"}
                    if leaf.codec == "A-complex":
                        yield {"base": name, "mode": mode, "index": index, "half": "real"}
                        yield {"base": name, "mode": mode, "index": index, "half": "imag"}
        for kind, prefix in group_prefixes(name, tier):
            yield {"base": name, "mode": "blank-group", "kind": kind, "prefix": prefix}
        for sseed in range(4 if tier == "quick" else 40):
            yield {"base": name, "mode": "pad-all", "sseed": sseed, "style": ["text", "numbers", None, None][sseed % 4]}


def group_prefixes(name, tier):
    """(file kind, path prefix) of every array element / sub-record that holds >= 2 value fields;
    quick: the first and the last element of every array, thorough: all of them"""
    counts = {}
    for kind, k, i, leaf in targets(name, "blank"):
        if kind not in ("leader", "volume"):
            continue
        parts = leaf.path.split("/")
        for depth in range(1, len(parts)):
            key = (kind, "/".join(parts[:depth]))
            counts[key] = counts.get(key, 0) + 1
    prefixes = sorted(k for k, n in counts.items() if n >= 2)
    if tier != "quick":
        return prefixes
    keep = []
    by_parent = {}
    for kind, prefix in prefixes:
        head, _, last = prefix.rpartition("/")
        if last.isdigit():
            by_parent.setdefault((kind, head), []).append(int(last))
        else:
            keep.append((kind, prefix))
    for (kind, head), idxs in by_parent.items():
        for i in sorted({min(idxs), max(idxs), max(idxs) - 1} & set(idxs)):
            keep.append((kind, f"{head}/{i}"))
        if len(idxs) > 3:
            keep.append((kind, f"{head}/{sorted(idxs)[len(idxs) // 2]}"))
    return sorted(set(keep))


def byte_cases():
    for name in BASES:
        n = len(byte_targets(name))
        for start in range(0, n, 64):
            yield {"base": name, "mode": "byte", "start": start, "count": min(64, n - start)}


@st.composite
def subset_cases(draw):
    return {
        "base": draw(st.sampled_from(sorted(BASES))),
        "mode": "blank-subset",
        "fraction": draw(st.sampled_from([0.02, 0.1, 0.5, 1.0])),
        "sseed": draw(st.integers(0, 2**32 - 1)),
        "open_mode": draw(st.sampled_from([None, None, "creating", "cached"])),
    }


def plan(tier):
    stages = [
        {"kind": "enum", "name": "blank-one/pad-one/pad-all", "cases": lambda: enum_cases(tier), "exhaustive": True},
        {"kind": "hyp", "name": "blank-subset", "strategy": subset_cases(), "examples": 100 if tier == "quick" else 6000},
    ]
    if tier == "thorough":
        stages.append({"kind": "enum", "name": "byte-influence-map", "cases": byte_cases, "exhaustive": True})
    return stages


def classify(case):
    return True, [f"mode={case['mode']}", f"base={case['base']}", f"open_mode={case.get('open_mode') or 'plain'}"]


LEVEL_TEXT = (
    "Metamorphic + model-based testing over the layout tables: every nullable field blanked (full "
    "model comparison of the variant), every array element / sub-record blanked as a whole, every padding area rewritten (tree must be identical), "
    "random subsets, and in the thorough tier a byte-by-byte influence map of the leader and a "
    "line prefix. Enumerations are exhaustive over the tables for the two base products."
)
LEVEL_NOTE = "Trusted base: frozen layout/exposure tables; the statement of which fields are nullable (vf/ceosgen/product.py)."
TECHNIQUE = "table-driven enumeration of blanked fields / rewritten padding + Hypothesis subsets; reference-model and metamorphic (identical tree) oracles"
