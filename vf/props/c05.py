"""C05 Record framing: data after variable-length/optional records decodes right."""

import io
import random

import numpy as np
from hypothesis import strategies as st

from vf import harness
from vf.ceosgen import model, product
from vf.props import c04, common

ID = "C05"
LEVEL = "exploration"
RULE = (
    "Exhaustive single-axis sweeps with every other axis drawn from the case's value seed: "
    "attitude point count 1..floor((L-16)/120) for L in {16384 (136 points), the minimal length "
    "16+120n, odd lengths}; channel count 1..16; each facility record 1-4 length 66..106 and "
    "{1000, 10000, 100000, 325000}; map-projection record count 0/1; file-pointer record count "
    "0..12; low-resolution image count 0..7 in the trailer (generated shapes, 1/2/4-byte samples). "
    "Thorough adds the full cross product attitude count x channel count x map projection "
    "(136x16x2). Oracle: the complete leader model (C04: every field of every record that follows "
    "a variable one must read back as written - fillers are decoy numbers) and root-attribute "
    "model (C16: text record after the pointer records) through open_alos2; low-resolution images "
    "and descriptor fields through the trailer reader, byte for byte. Non-trivial: count / length "
    "differs from the default used by the other checks. Each axis is enumerated completely."
    " Facility lengths also around 2^16 and 2^24 (a 16 MiB record)."
)
ASSUMPTIONS = [
    "frozen layout / exposure tables",
    "the trailer is only reachable through ceos_alos2.sar_trailer.read_sar_trailer (open_alos2 never reads it)",
]
BUDGET = {"quick": 150, "thorough": 2400}
JOBS = {"quick": 4, "thorough": 16}


def enum_cases(tier):
    seed = 0
    for n in range(1, 137):
        seed += 1
        yield {"axis": "attitude", "n_att": n, "att_len": 16384, "vseed": seed}
    # an attitude record that declares no points at all (round 14, C05n)
    # open_alos2 itself rejects such a leader (AttributeError in the attitude transform), so this
    # axis works one level down, on sar_leader.io.parse_data, the call open_sar_leader makes
    for n in (1, 2, 5):
        for k in range(3):
            yield {"axis": "attitude-zero", "n_att": n, "att_len": 16384, "vseed": 100000 + 10 * n + k}
    for n in list(range(1, 137, 1 if tier == "thorough" else 9)):
        seed += 1
        yield {"axis": "attitude-minimal", "n_att": n, "att_len": 16 + 120 * n, "vseed": seed}
        seed += 1
        yield {"axis": "attitude-odd", "n_att": n, "att_len": 16 + 120 * n + 1 + 2 * (n % 40), "vseed": seed}
    for n in range(1, 17):
        for mp in (False, True):
            seed += 1
            yield {"axis": "channels", "n_channels": n, "map_projection": mp, "vseed": seed}
    for which in range(4):
        for length in list(range(66, 107)) + [1000, 10000, 100000, 325000]:
            if tier == "quick" and 70 < length < 100 and length % 4:
                continue
            seed += 1
            lengths = [100, 66, 200, 300]
            lengths[which] = length
            yield {"axis": f"facility{which + 1}", "facility_lengths": lengths, "vseed": seed}
    # declared lengths around the powers of two of the 4-byte binary length (real records of
    # several MB exist; 16 MiB and more is legal for both the binary and the 8-digit ASCII field)
    big = [2**16 - 1, 2**16, 2**16 + 1, 2**24 - 1, 2**24, 2**24 + 4097]
    for j, length in enumerate(big):
        if tier == "quick" and length > 2**24 and j % 2:
            continue
        seed += 1
        lengths = [100, 66, 200, 300]
        lengths[j % 4] = length
        yield {"axis": f"facility{j % 4 + 1}-large", "facility_lengths": lengths, "vseed": seed}
    for mp in (False, True):
        for des in product.DESIGNATORS:
            seed += 1
            yield {"axis": "map-projection", "map_projection": mp, "designator": des, "vseed": seed}
    for n in range(0, 13):
        seed += 1
        yield {"axis": "file-pointers", "n_file_pointers": n, "vseed": seed}
    # bytes after the last declared record of each file belong to no record
    for what in ("volume", "leader", "image"):
        for kind in ("blank", "nul", "text", "random"):
            for n in (0, 3, 9):
                seed += 1
                yield {"axis": f"trailing-{what}", "trailing": {what: kind}, "n_file_pointers": n, "vseed": seed}
    for n in range(0, 8):
        for rep in range(3):
            seed += 1
            yield {"axis": "trailer", "n_lowres": n, "vseed": seed}
    if tier == "thorough":
        for n_att in range(1, 137):
            for n_ch in range(1, 17):
                for mp in (False, True):
                    seed += 1
                    yield {"axis": "cross", "n_att": n_att, "att_len": 16384, "n_channels": n_ch, "map_projection": mp, "vseed": seed}


def plan(tier):
    return [{"kind": "enum", "name": "axis-sweeps", "cases": lambda: enum_cases(tier), "exhaustive": True}]


def classify(case):
    d = product.default_leader_params()
    nontrivial = (
        case.get("n_att", d["n_att"]) != d["n_att"]
        or case.get("n_channels", d["n_channels"]) != d["n_channels"]
        or case.get("facility_lengths", d["facility_lengths"]) != d["facility_lengths"]
        or case.get("map_projection", False)
        or "n_file_pointers" in case
        or case.get("n_lowres", 0) > 0
    )
    return nontrivial, [f"axis={case['axis']}"]


def lowres_images(n, rng):
    out = []
    for _ in range(n):
        pixels, lines, nbytes = rng.randrange(1, 9), rng.randrange(1, 9), rng.choice([1, 2, 4])
        out.append({"pixels": pixels, "lines": lines, "nbytes": nbytes, "data": rng.randbytes(pixels * lines * nbytes)})
    return out


def check_trailer(case):
    from ceos_alos2.sar_trailer import read_sar_trailer

    rng = random.Random(case["vseed"])
    lowres = lowres_images(case["n_lowres"], rng)
    data, leaves = product.build_trailer(lowres, rng, "decoy")
    result, err = harness.guard(read_sar_trailer, io.BytesIO(data))
    if err is not None:
        return [harness.disc("exception", "read_sar_trailer", f"{len(lowres)} images", harness.exc_text(err))]
    header, images = result
    out = []
    if len(images) != len(lowres):
        return [harness.disc("image-count", "read_sar_trailer", len(lowres), len(images))]
    for i, (im, got) in enumerate(zip(lowres, images)):
        got = np.asarray(got)
        if got.size != im["pixels"] * im["lines"] or got.dtype.itemsize != im["nbytes"]:
            out.append(harness.disc("lowres-geometry", f"low-res image {i}", (im["pixels"], im["lines"], im["nbytes"]), (got.shape, got.dtype)))
            continue
        if got.astype(got.dtype.newbyteorder(">")).tobytes() != im["data"]:
            out.append(harness.disc("lowres-bytes", f"low-res image {i}", "its own bytes", "other bytes"))
        rec = header.low_resolution_image_sizes[i]
        want = (len(im["data"]), im["pixels"], im["lines"], im["nbytes"])
        have = (rec["record_length"], rec["number_of_pixels"], rec["number_of_lines"], rec["number_of_bytes_per_one_sample"])
        if want != have:
            out.append(harness.disc("descriptor-entry", f"low-res entry {i}", want, have))
    # a field *before* the table and the count itself
    if header.number_of_low_resolution_images != len(lowres):
        out.append(harness.disc("descriptor-entry", "number_of_low_resolution_images", len(lowres), header.number_of_low_resolution_images))
    return out


def check_attitude_zero(case):
    """metamorphic: re-declaring the attitude record of a leader as holding 0 points (its length
    unchanged, the former points become filler) leaves every other record's decoding unchanged"""
    from ceos_alos2.sar_leader.io import parse_data

    params = product.default_leader_params()
    params.update(n_att=case["n_att"], att_len=case["att_len"])
    data, leaves = product.build_leader(params, random.Random(case["vseed"]))
    (leaf,) = [l for l in leaves if l.path == "attitude/number_of_points"]
    zero = data[: leaf.offset] + b"   0" + data[leaf.offset + 4 :]
    ref, err = harness.guard(parse_data, data)
    if err is not None:
        return [harness.disc("exception", "parse_data", "parsed records", harness.exc_text(err))]
    got, err = harness.guard(parse_data, zero)
    if err is not None:
        return [harness.disc("exception", "parse_data (0 attitude points)", "parsed records", harness.exc_text(err))]
    out = []
    if len(got["attitude"]["data_points"]) != 0:
        out.append(harness.disc("attitude-points", "attitude/data_points", 0, len(got["attitude"]["data_points"])))
    for name in ref:
        if name != "attitude" and repr(got.get(name)) != repr(ref[name]):
            out.append(harness.disc("misframed-after-empty-attitude", name, "same decoding as with N points", "different"))
    return out


def run_case(case):
    if case["axis"] == "trailer":
        return check_trailer(case)
    if case["axis"] == "attitude-zero":
        return check_attitude_zero(case)
    leader = {}
    for k in ("n_att", "att_len", "n_channels", "facility_lengths", "map_projection", "designator"):
        if k in case:
            leader[k] = case[k]
    full = {
        "level": "1.5" if case["vseed"] % 2 else "1.1",
        "images": [{"lines": 1, "pixels": 1}],
        "leader": leader,
        "policy": "decoy",
        "vseed": case["vseed"],
    }
    if "n_file_pointers" in case:
        full["n_file_pointers"] = case["n_file_pointers"]
    if "trailing" in case:
        full["trailing"] = case["trailing"]
    spec = common.spec_from(full)
    files, info = product.build_product(spec)
    with harness.Materialised(files, "memory") as prod:
        tree, err = harness.guard(harness.open_tree, prod.url, use_cache=False)
        if err is not None:
            return [harness.disc("exception", "open_alos2", "a tree", harness.exc_text(err))]
        flat, err = harness.guard(harness.flatten, tree)
        if err is not None:
            return [harness.disc("exception", "flatten", "loadable tree", harness.exc_text(err))]
    out = c04.check_leader(info, spec, flat)
    out += model.check_root_attrs(info["volume_leaves"], {k: v for k, v in flat.items() if k.startswith("/@")}, harness.disc)
    return out


LEVEL_TEXT = (
    "Exhaustive enumeration of every declared count / length axis (attitude points 1..136, and 0 at the parse_data level, "
    "channels 1..16, facility lengths, map-projection 0/1, file pointers 0..12, low-res images "
    "0..7) with the complete reference model as oracle for every record that follows."
)
LEVEL_NOTE = "Trusted: frozen layout tables incl. the hand-stated context-dependent lengths (tools/bootstrap_layout.py FIXUPS)."
TECHNIQUE = "exhaustive per-axis enumeration of counts/lengths; reference-model oracle on all following records + byte-exact trailer images"
