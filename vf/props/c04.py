"""C04 SAR leader metadata equals the field values stored in the leader file."""

from hypothesis import strategies as st

from vf import harness
from vf.ceosgen import model, product
from vf.props import common

ID = "C04"
LEVEL = "exploration"
RULE = (
    "Hypothesis draws the leader's structure (1..136 attitude points, 1..16 channels, map "
    "projection absent/present, each designator UTM/UPS/LCC/MER, facility record lengths, "
    "reference instant, enum cycle, filler policy) and a value seed from which EVERY leader field "
    "is filled at once (floats over many magnitudes in E/F notation of generated precision, signs, "
    "left/right/both padding, leading zeros; ints of every digit count incl. negatives; printable "
    "strings with inner spaces; every enum code). The leader is read through open_alos2. Oracle: "
    "expected tree from the frozen layout+exposure tables: value=float(text)*factor etc., unit, "
    "name, dims, group path; every leaf under /metadata must be predicted (or be a frozen "
    "constant of the reference structure) and equal. Non-trivial: always (all fields set); "
    "distinct = hash of the case (structure + value seed)."
    " Float texts use every spelling [+-]?(d+[.d*]|.d+)([eE][+-]?d+)?; decimal-second texts carry 3..6 fraction digits; text fields are blank- or NUL-padded. Stage 'in-place-pairs': two leaders at the same root, one after the other, both judged."
    " Half of the cases inject a transient I/O error: the 1st, 2nd, 3rd, 5th or 8th read of the leader file fails once with OSError during the open; the open may fail, but a tree that is returned carries the complete /metadata of the file."
)
ASSUMPTIONS = [
    "layout/*.json + layout/exposure_*.json (frozen, hand audited) stand in for the JAXA format document",
    "floats: exact when unscaled, relative 1e-12 when a scale factor is involved",
    "documentation attributes (formula strings, legends, long_name) are not asserted",
]
BUDGET = {"quick": 120, "thorough": 1500}
JOBS = {"quick": 4, "thorough": 16}


@st.composite
def cases(draw):
    leader = {
        "n_att": draw(st.one_of(st.integers(1, 136), st.integers(1, 5), st.sampled_from([1, 135, 136]))),
        "n_channels": draw(st.integers(1, 16)),
        "map_projection": draw(st.booleans()),
        "designator": draw(st.sampled_from(product.DESIGNATORS)),
        "facility_lengths": [draw(st.integers(66, 200)) for _ in range(4)],
        "instant": draw(common.instants()),
        # several attitude samples may carry the same time stamp; the scene centre may lie
        # minutes after the first orbit point (in the next day / year when that is late on 31 Dec)
        "repeat_attitude_times": draw(st.sampled_from([False, False, True])),
        "scene_center_offset_ms": draw(st.sampled_from([0, 0, 600_000, 3_600_000])),
    }
    level = draw(st.sampled_from(["1.1", "1.5", "3.1"]))
    return {
        "level": level,
        "images": [{"lines": 1, "pixels": 1}],
        "leader": leader,
        "policy": draw(st.sampled_from(["decoy", "decoy", "blank"])),
        "enum_cycle": draw(st.one_of(st.integers(0, 11), st.integers(0, 11), st.none())),  # None: random codes, some outside the tables
        "vseed": draw(st.integers(0, 2**32 - 1)),
        # the n-th read of the leader file fails once with OSError (None: no fault)
        "io_error": draw(st.sampled_from([None, None, None, None, None, 1, 2, 3, 5, 8])),
    }


def plan(tier):
    n = 600 if tier == "quick" else 48000
    return [{"kind": "hyp", "name": "leaders", "strategy": cases(), "examples": n},
            {"kind": "hyp", "name": "in-place-pairs", "strategy": common.in_place_pairs(cases()), "examples": max(60, n // 16)}]


def classify(case):
    ld = case["leader"]
    labels = [
        f"map={int(ld['map_projection'])}",
        f"designator={ld['designator'][:3]}" if ld["map_projection"] else "designator=-",
        "att>=100" if ld["n_att"] >= 100 else "att<100",
        f"policy={case['policy']}",
    ]
    if case.get("io_error"):
        labels.append("transient-read-error")
    return True, labels


def run_case(case):
    spec = common.spec_from(case)
    files, info = product.build_product(spec)
    if case.get("io_error"):
        # an open during which one read of the leader fails: it may fail, but a
        # tree that is returned carries the complete /metadata of the file
        with common.open_under_read_fault(files, info["names"]["sar_leader"], case["io_error"], use_cache=False) as (tree, err, consumed):
            if err is not None:
                return common.judge_fault_error(err, "open_alos2 while a read of the leader fails")
            flat, err = harness.guard(harness.flatten, tree)
            if err is not None:
                return [harness.disc("exception", "flatten", "loadable tree", harness.exc_text(err))]
        out = check_leader(info, spec, flat)
        for d in out:
            d.setdefault("context", {})["during"] = "an open in which a read of the leader " + ("failed with OSError" if consumed else "was to fail (no such read happened)")
        return out
    with harness.Materialised(files, "memory") as prod:
        tree, err = harness.guard(harness.open_tree, prod.url, use_cache=False)
        if err is not None:
            return [harness.disc("exception", "open_alos2", "a tree", harness.exc_text(err))]
        flat, err = harness.guard(harness.flatten, tree)
        if err is not None:
            return [harness.disc("exception", "flatten", "loadable tree", harness.exc_text(err))]
    return check_leader(info, spec, flat)


def check_leader(info, spec, flat):
    exp, table = model.expected_leader(info["leader_leaves"], spec["leader"])
    absent = () if spec["leader"]["map_projection"] else ("/metadata/map_projection",)
    return model.check_against_table(exp, flat, table, harness.disc, "/metadata", absent)


LEVEL_TEXT = (
    "Model-based testing: an independent encoder writes every leader field from generated values "
    "and the complete /metadata subtree read by open_alos2 is compared with the expected tree "
    "derived from frozen layout/exposure tables. Sampling of an infinite value domain; structure "
    "axes (counts, designators, presence) are covered by generation."
)
LEVEL_NOTE = (
    "Trusted base: frozen layout and exposure tables (bootstrapped once from the pinned commit by "
    "struct walking + differential tracing, hand audited against record sizes, docs and tests) - "
    "an error shared by tables and pinned code is invisible."
)
TECHNIQUE = "Hypothesis-generated leader files via independent encoder; reference-model oracle from frozen layout/exposure tables"
