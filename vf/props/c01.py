"""C01 Pixel fidelity: loaded image values are exactly the samples in the file."""

import numpy as np
from hypothesis import strategies as st

from vf import harness
from vf.ceosgen import product
from vf.props import common

ID = "C01"
LEVEL = "exploration"
RULE = (
    "Hypothesis draws {level, 1-3 images with (lines, pixels) incl. 1xN / Nx1, records_per_chunk "
    "class relative to the line count, filesystem kind, value seed}; the independent encoder "
    "writes raw big-endian sample bytes (random words sprinkled with NaN payloads, +-inf, +-0, "
    "denormals, 0x0000, 0xFFFF); oracle = the raw bytes themselves, compared word for word, for the "
    "full load, for a generated window (rows a::s with s in {1..5,7,-1,-3}, columns c0:c1) and for a generated list of lines. "
    "Non-trivial: lines>=2 and pixels>=2 and at least two distinct sample words. Distinct = sha1 "
    "of the case dict."
    " One case in six also writes the index cache and reads the pixels again through it. Stage 'in-place-pairs': two such products with the same file names are materialised one after the other at the same root and both are judged (in two thirds of the pairs the first product leaves its index behind). The encoder also varies the line numbering (usual / restarting / zeros). Stage 'beyond-4GiB': one virtual image of 4.4 GB on vtrace:// (4400 lines of ~1 MB, eight of them with samples, the rest zero and never materialised); lines on both sides of file offsets 2^31 and 2^32, the first, the last and three zero lines are compared with the bytes at their offsets. Stage 'cross-level-twins': a level-1.5 and a level-1.1 product whose image records have the same length (192 + 2p = 544 + 8p') and line count are read one after the other in one process, in both orders."
)
ASSUMPTIONS = [
    "layout tables under /verif/layout are the reference for where the sample area starts",
    "'any fsspec filesystem' = local path, file:// URL, memory://, custom vtrace://",
    "dask is absent: chunks=None only",
]
BUDGET = {"quick": 100, "thorough": 1200}
JOBS = {"quick": 4, "thorough": 16}


def rpc_strategy(lines):
    opts = {1, max(1, lines - 1), lines, lines + 1, 2 * lines, 2**31, 1024}
    for d in range(2, min(lines, 12) + 1):
        opts.add(d)
    return st.sampled_from(sorted(opts))


@st.composite
def cases(draw, max_lines=48, max_pixels=32):
    level = draw(st.sampled_from(["1.1", "1.5", "3.1"]))
    n_images = draw(st.sampled_from([1, 1, 1, 2, 3]))
    images = []
    shape_kind = draw(st.sampled_from(["any"] * 9 + ["1xN", "Nx1", "1x1"]))
    for _ in range(n_images):
        lines = draw(st.integers(1, max_lines))
        pixels = draw(st.integers(1, max_pixels))
        if shape_kind == "1xN":
            lines = 1
        elif shape_kind == "Nx1":
            pixels = 1
        elif shape_kind == "1x1":
            lines = pixels = 1
        im = {"lines": lines, "pixels": pixels}
        if draw(st.integers(0, 5)) == 0:
            # line numbers are labels: they may start again half way or be unset
            im["line_numbers"] = draw(st.sampled_from(["restart", "zeros"]))
        images.append(im)
    rpc = draw(rpc_strategy(images[0]["lines"]))
    fs = draw(st.sampled_from(["local", "file", "memory", "vtrace"]))
    vseed = draw(st.integers(0, 2**32 - 1))
    # a window read after the full load: rows a::s (s may be negative), columns c0:c1
    n, p = images[0]["lines"], images[0]["pixels"]
    window = {
        "rows": [draw(st.integers(0, n - 1)), draw(st.sampled_from([1, 2, 3, 4, 5, 7, -1, -3]))],
        "cols": sorted([draw(st.integers(0, p)), draw(st.integers(0, p))]),
        # and a list of lines (sorted, unequal gaps, repeats)
        "list": sorted(draw(st.lists(st.integers(0, n - 1), min_size=1, max_size=5))),
    }
    case = {"level": level, "images": images, "rpc": rpc, "fs": fs, "vseed": vseed, "window": window}
    if draw(st.integers(0, 5)) == 0:
        case["create_cache"] = True  # the judged tree also wrote the index cache
    return case


def twin_cases():
    """two products of DIFFERENT levels whose image records have the same length (192 + 2 p = 544 +
    8 p') and the same number of lines, read one after the other in one process with the same
    request size: whatever the reader remembers about "records of this size" must not carry over"""
    for k in (1, 4):
        for lines, rpc in ((6, 1024), (6, 2)):
            for order in ("1.5-first", "1.1-first"):
                yield {"twins": True, "k": k, "lines": lines, "rpc": rpc, "order": order, "vseed": 7 * k + lines}


def run_twins(case):
    out = []
    sub = {"1.5": {"level": "1.5", "images": [{"lines": case["lines"], "pixels": 176 + 4 * case["k"]}], "rpc": case["rpc"], "fs": "memory", "vseed": case["vseed"],
                   "window": {"rows": [0, 1], "cols": [0, 2], "list": [0]}},
           "1.1": {"level": "1.1", "images": [{"lines": case["lines"], "pixels": case["k"]}], "rpc": case["rpc"], "fs": "memory", "vseed": case["vseed"] + 1,
                   "window": {"rows": [0, 1], "cols": [0, 1], "list": [0]}}}
    order = ["1.5", "1.1"] if case["order"] == "1.5-first" else ["1.1", "1.5"]
    for n, level in enumerate(order):
        for d in run_case(sub[level]):
            d.setdefault("context", {})["twin"] = f"{level} product, opened {'first' if n == 0 else 'after the other level'}"
            out.append(d)
    return out


def beyond_4gib_cases():
    """one virtual image of 4.4 GB (4400 lines of ~1 MB; only eight lines carry samples, the rest
    is zero and never materialised): byte offsets pass 2^31 and 2^32"""
    rows = {0: 1, 2146: 2, 2147: 3, 2148: 4, 4294: 5, 4295: 6, 4296: 7, 4399: 8}
    yield {"beyond_4gib": True, "level": "1.5", "images": [{"lines": 4400, "pixels": 499900, "sparse_rows": {str(k): v for k, v in rows.items()}}],
           "rpc": 64, "fs": "vtrace", "vseed": 41, "zero_rows": [1, 2149, 4297], "case_timeout_s": 900}


def run_beyond_4gib(case):
    from vf.runner import touch

    spec = common.spec_from(case)
    spec["images"][0]["sparse_rows"] = {int(k): v for k, v in case["images"][0]["sparse_rows"].items()}
    files, info = product.build_product(spec)
    touch()
    iinfo = info["images"][0]
    data = files[iinfo["name"]]
    lines, pixels, reclen = iinfo["lines"], iinfo["pixels"], iinfo["reclen"]
    gname = common.group_names(spec)[0]
    out = []
    with harness.Materialised(files, "vtrace") as prod:
        tree, err = harness.guard(harness.open_tree, prod.url, records_per_chunk=case["rpc"], use_cache=False)
        touch()
        if err is not None:
            return [harness.disc("exception", "open_alos2", "a tree", harness.exc_text(err))]
        da = tree[f"imagery/{gname}"]["data"]
        if tuple(da.shape) != (lines, pixels):
            return [harness.disc("shape", f"/imagery/{gname}#data", (lines, pixels), tuple(da.shape))]
        for row in sorted(spec["images"][0]["sparse_rows"]) + list(case["zero_rows"]):
            values, err = harness.guard(lambda: np.asarray(da.isel(rows=row).values))
            touch()
            where = f"/imagery/{gname}#data line {row} (file offset {720 + row * reclen})"
            if err is not None:
                out.append(harness.disc("exception", where, "the line", harness.exc_text(err)))
                break
            start = 720 + row * reclen + (reclen - 2 * pixels)
            want = np.frombuffer(data[start: start + 2 * pixels], ">u2")
            if values.shape != want.shape or not bool((values == want).all()):
                bad = int((values != want).sum()) if values.shape == want.shape else -1
                out.append(harness.disc("pixels", where, "the samples stored at that offset", f"{bad} of {pixels} samples differ"))
                break
    return out


def plan(tier):
    pairs = common.in_place_pairs(cases(16, 8), stale_index=True)
    if tier == "quick":
        return [{"kind": "enum", "name": "beyond-4GiB", "cases": beyond_4gib_cases, "exhaustive": False},
                {"kind": "enum", "name": "cross-level-twins", "cases": twin_cases, "exhaustive": False},
                {"kind": "hyp", "name": "products", "strategy": cases(), "examples": 480},
                {"kind": "hyp", "name": "in-place-pairs", "strategy": pairs, "examples": 80}]
    return [
        {"kind": "enum", "name": "beyond-4GiB", "cases": beyond_4gib_cases, "exhaustive": False},
        {"kind": "enum", "name": "cross-level-twins", "cases": twin_cases, "exhaustive": False},
        {"kind": "hyp", "name": "products", "strategy": cases(), "examples": 16 * 1200},
        {"kind": "hyp", "name": "in-place-pairs", "strategy": pairs, "examples": 16 * 200},
        {"kind": "hyp", "name": "large", "strategy": cases(400, 64), "examples": 16 * 60},
    ]


def rpc_class(rpc, lines):
    if rpc < lines:
        return "rpc<N" + ("" if lines % rpc == 0 else "(non-divisor)")
    if rpc == lines:
        return "rpc=N"
    return "rpc>N"


def classify(case):
    if case.get("twins"):
        return True, ["cross-level-twins", f"order={case['order']}"]
    im = case["images"][0]
    nontrivial = im["lines"] >= 2 and im["pixels"] >= 2
    labels = [
        f"level={case['level']}",
        f"fs={case['fs']}",
        rpc_class(case["rpc"], im["lines"]),
        f"images={len(case['images'])}",
    ]
    if im["lines"] == 1:
        labels.append("1xN")
    if im["pixels"] == 1:
        labels.append("Nx1")
    return nontrivial, labels


def expected_words(info):
    if info["type_code"] == "C*8":
        return np.frombuffer(info["raw"], ">u4").astype("<u4").reshape(info["lines"], info["pixels"] * 2)
    return np.frombuffer(info["raw"], ">u2").astype("<u2").reshape(info["lines"], info["pixels"])


def observed_words(values, type_code):
    values = np.ascontiguousarray(values)
    if type_code == "C*8":
        return values.astype("complex64", copy=False).view("<u4").reshape(values.shape[0], -1)
    return values.astype("<u2", copy=False)


def check_window(case, var, iinfo, exp, where):
    """a partial (strided / windowed) read must return the file's samples at those positions too"""
    w = case.get("window")
    if not w:
        return []
    a, step = w["rows"]
    a = min(a, iinfo["lines"] - 1)
    c0, c1 = (min(c, iinfo["pixels"]) for c in w["cols"])
    rows = slice(a, None, step)
    values, err = harness.guard(lambda: np.asarray(var.isel(rows=rows, columns=slice(c0, c1)).values))
    text = f"{where}[{a}::{step}, {c0}:{c1}]"
    if err is not None:
        return [harness.disc("exception", text, "values", harness.exc_text(err))]
    k = 2 if iinfo["type_code"] == "C*8" else 1
    want = exp[rows, k * c0: k * c1]
    if values.shape != (want.shape[0], c1 - c0):
        return [harness.disc("shape", text, (want.shape[0], c1 - c0), values.shape)]
    got = observed_words(values, iinfo["type_code"]) if values.size else want[:0]
    if values.size and not np.array_equal(want, got):
        bad = np.argwhere(want != got)
        return [harness.disc("pixel-bits", text, f"word 0x{int(want[tuple(bad[0])]):08x}", f"0x{int(got[tuple(bad[0])]):08x}", n_bad=int(len(bad)))]
    lines = [min(i, iinfo["lines"] - 1) for i in w.get("list", [])]
    if lines:
        values, err = harness.guard(lambda: np.asarray(var.isel(rows=lines).values))
        text = f"{where}[{lines}]"
        if err is not None:
            return [harness.disc("exception", text, "values", harness.exc_text(err))]
        want = exp[lines]
        if values.shape != (len(lines), iinfo["pixels"]) or not np.array_equal(want, observed_words(values, iinfo["type_code"])):
            return [harness.disc("pixel-bits", text, "the samples of those lines", "other samples / shape", shape=list(values.shape))]
    return []


def run_case(case):
    if case.get("beyond_4gib"):
        return run_beyond_4gib(case)
    if case.get("twins"):
        return run_twins(case)
    spec = common.spec_from(case)
    files, info = product.build_product(spec)
    out = []
    with harness.Materialised(files, case["fs"]) as prod:
        opts = {"create_cache": True} if case.get("create_cache") else {}
        tree, err = harness.guard(
            harness.open_tree, prod.url, records_per_chunk=case["rpc"], use_cache=False, **opts
        )
        cached = None
        if opts:
            # the cache just produced must describe THIS file: pixels read through it are judged too
            cached, cerr = harness.guard(harness.open_tree, prod.url, records_per_chunk=case["rpc"], use_cache=True)
            if cerr is not None and err is None:
                out.append(harness.disc("exception", "open_alos2 through the cache it just wrote", "a tree", harness.exc_text(cerr)))
                cached = None
        # in an in-place pair the first product's cache stays in place for the second one
        if (opts and harness.PAIR_INDEX != 0) or harness.PAIR_INDEX == 1:
            common.drop_user_cache(prod.url, info["names"]["sar_imagery"])
        if err is not None:
            return [harness.disc("exception", "open_alos2", "a tree", harness.exc_text(err))]
        for iinfo, gname in zip(info["images"], common.group_names(spec)):
            where = f"/imagery/{gname}#data"
            try:
                var = tree[f"imagery/{gname}"]["data"]
            except KeyError as e:
                out.append(harness.disc("leaf-missing", where, "image variable", harness.exc_text(e)))
                continue
            shape = (iinfo["lines"], iinfo["pixels"])
            if tuple(var.shape) != shape:
                out.append(harness.disc("shape", where, shape, tuple(var.shape)))
                continue
            values, err = harness.guard(lambda v=var: np.asarray(v.values))
            if err is not None:
                out.append(harness.disc("exception", where + ".values", "values", harness.exc_text(err)))
                continue
            want_dtype = "complex64" if iinfo["type_code"] == "C*8" else "uint16"
            if str(values.dtype) != want_dtype:
                out.append(harness.disc("dtype", where, want_dtype, str(values.dtype)))
                continue
            if values.shape != shape:
                out.append(harness.disc("shape", where + ".values", shape, values.shape))
                continue
            exp = expected_words(iinfo)
            obs = observed_words(values, iinfo["type_code"])
            out.extend(check_window(case, var, iinfo, exp, where))
            if cached is not None and case["fs"] in ("local", "file"):
                # (non-local products: open finding D5 makes the cached pixels unloadable)
                cvals, cerr = harness.guard(lambda g=gname: np.asarray(cached[f"imagery/{g}"]["data"].values))
                if cerr is not None:
                    out.append(harness.disc("exception", where + " through the cache just written", "values", harness.exc_text(cerr)))
                elif cvals.shape != shape or not np.array_equal(exp, observed_words(cvals, iinfo["type_code"])):
                    out.append(harness.disc("pixel-bits", where + " through the cache just written", "the samples of the file", "other samples / shape", shape=list(cvals.shape)))
            if not np.array_equal(exp, obs):
                bad = np.argwhere(exp != obs)
                r, c = (int(x) for x in bad[0])
                kind = "pixel-bits"
                out.append(
                    harness.disc(
                        kind, where, f"word 0x{int(exp[r, c]):08x}", f"0x{int(obs[r, c]):08x}",
                        first_bad=[r, c], n_bad=int(len(bad)),
                        special=common.float_word_class(int(exp[r, c])) if iinfo["type_code"] == "C*8" else "",
                    )
                )
            # what the caller does with a returned array is the caller's business: overwrite it
            # in place, then look at the image again
            try:
                values[...] = 0
            except (ValueError, TypeError):
                pass  # a read-only result cannot be damaged
            again, err = harness.guard(lambda v=var: np.asarray(v.values))
            if err is not None:
                out.append(harness.disc("exception", where + ".values (second look)", "values", harness.exc_text(err)))
            elif again.shape != shape or not np.array_equal(exp, observed_words(again, iinfo["type_code"])):
                out.append(harness.disc("pixel-bits", where + " (second look, after the first result was overwritten in place)", "the samples of the file", "other samples"))
    return out

LEVEL_TEXT = (
    "Generated-input search: whole products are manufactured by an independent encoder from raw "
    "sample bytes and read back through open_alos2; every loaded word is compared with the bytes "
    "written. Sampling of an infinite domain (sizes, bit patterns, rpc classes, 4 filesystem "
    "kinds): finds framing/decoding defects, never proves absence."
)
LEVEL_NOTE = (
    "Trusted base: frozen layout tables (/verif/layout) for the position of the sample area; "
    "numpy byte views; fsspec local/memory filesystems and the harness's vtrace filesystem."
)
TECHNIQUE = "Hypothesis-generated products (+ one virtual multi-GiB image), round trip against the raw sample bytes (bit-exact oracle)"
