"""C14 Summary parsing is total on well-formed text, reports every malformed line."""

import datetime as dt
import random
import string

from hypothesis import strategies as st

from vf import harness
from vf.ceosgen import product
from vf.props import c15, common

ID = "C14"
LEVEL = "exploration"
RULE = (
    "Grammar-based generation: Hypothesis draws which of the 8 documented sections are present, "
    "the number of product files (3..10, i.e. 0..7 images... at least 1 image when opened), 1..3 "
    "shape indices, LF or CRLF, trailing newline or not, a shuffle seed (ALL lines shuffled within "
    "and across sections) and a value seed; documented keys get typed values per section "
    "(ints, floats, date-times, ids from the code tables, lookup codes), pass-through sections "
    "get random identifier keys with free-text values over printable ASCII incl. spaces, '=' and "
    "'\"', some with non-ASCII (UTF-8) letters, symbols and CJK. Malformed variant: a generated non-empty subset of lines is corrupted by an operator "
    "that makes the line unambiguously ungrammatical (no '=\"', junk after the closing quote, "
    "section not 3 letters, no underscore, blank line); every corrupted line is double-checked by "
    "an independent hand-written recogniser. Oracle: model of the documented conversions "
    "(order- and newline-independent); for malformed input exactly one ExceptionGroup whose "
    "members name exactly the corrupted line indices (0-based as pinned by the repo's tests, or "
    "consistently 1-based). Bulk through the summary reader, a sample through open_alos2. "
    "Non-trivial: shuffled and (quote/'=' in a value or CRLF or >= 2 corrupted lines)."
)
ASSUMPTIONS = [
    "documented conversions = the section tables stated in this file (from summary.py docstrings/tests and docs)",
    "file roles are decided by the numeric suffix of the ProductFileName keys (order independence)",
]
BUDGET = {"quick": 120, "thorough": 2400}
JOBS = {"quick": 2, "thorough": 16}

SECTION_NAMES = {
    "Odi": "ordering_information",
    "Scs": "scene_specification",
    "Pds": "product_specification",
    "Img": "image_information",
    "Pdi": "product_information",
    "Ach": "autocheck",
    "Rad": "result_information",
    "Lbi": "label_information",
}
IDENT = string.ascii_letters + string.digits + "_"
FREE = "".join(chr(c) for c in range(0x20, 0x7F))
NON_ASCII = "\u00e9\u00f8\u00c5\u00df\u00f1\u00b0\u00b5\u221a\u65e5\u672c\u20ac\u0105\u011c\u0145"
RESAMPLING = {"NN": "nearest-neighbor", "BL": "bilinear", "CC": "cubic convolution"}
FACILITIES = {
    "SCMO": "spacecraft control mission operation system",
    "EICS": "earth intelligence collection and sharing system",
}


# ---------------------------------------------------------------------------------------------------
# independent recogniser of the line grammar
# ---------------------------------------------------------------------------------------------------


def ref_parse_line(line):
    """Sec_Key="value" -> (section, key, value) or None"""
    if len(line) < 7:  # abc_="" is the shortest line
        return None
    sec = line[:3]
    if not all(c in string.ascii_letters for c in sec) or line[3] != "_":
        return None
    rest = line[4:]
    i = rest.find('="')
    while i != -1:
        value_and_quote = rest[i + 2:]
        if value_and_quote.endswith('"') and len(value_and_quote) >= 1:
            return sec, rest[:i], value_and_quote[:-1]
        i = rest.find('="', i + 1)
    return None


# ---------------------------------------------------------------------------------------------------
# generation
# ---------------------------------------------------------------------------------------------------


def ident(rng, lo=1, hi=12, forbid=()):
    while True:
        s = rng.choice(string.ascii_letters) + "".join(rng.choice(IDENT) for _ in range(rng.randrange(lo - 1, hi)))
        if not any(f in s for f in forbid):
            return s


def free_text(rng, hi=24):
    n = rng.randrange(0, hi)
    s = "".join(rng.choice(FREE) for _ in range(n))
    if rng.random() < 0.3:
        s += rng.choice(['"', "=", '="', ' " ', "a=b", '""'])
    if rng.random() < 0.15:
        # text beyond ASCII (the file is UTF-8): letters, symbols, CJK; none of them is a line
        # separator for str.splitlines, but some contain the BYTES 0x85 / 0x1c-0x1e in UTF-8
        s += "".join(rng.choice(NON_ASCII) for _ in range(rng.randrange(1, 4)))
    return s


def float_text(rng):
    return rng.choice(
        [f"{rng.uniform(-1e4, 1e4):.3f}", f"{rng.uniform(-1, 1):.6e}", str(rng.randrange(-500, 500)), f"{rng.uniform(0, 90):.1f}"]
    )


def datetime_text(rng):
    d = dt.datetime(2014, 1, 1) + dt.timedelta(seconds=rng.randrange(36 * 365 * 86400), milliseconds=rng.randrange(1000))
    return d.strftime("%Y%m%d %H:%M:%S.") + f"{d.microsecond // 1000:03d}", d


def build_entries(case):
    """returns (entries [(sec, key, value)], expected {group path: attrs}, file names dict)"""
    rng = random.Random(case["vseed"])
    sections = set(case["sections"]) | {"Pdi"}
    entries = []
    exp = {}
    level = case.get("level", "1.5")
    spec_images = case["images"]
    pid = case.get("product_id") or rng.choice([p for p in c15.PRODUCT_IDS if p[4:7] == level])
    d = dt.date(2014, 1, 1) + dt.timedelta(days=rng.randrange(13149))
    orbit, frame = rng.randrange(100000), rng.randrange(10000)
    scene_id = f"ALOS2{orbit:05d}{frame:04d}-{d:%y%m%d}"
    names = product.file_names(scene_id, pid, spec_images)

    def group(sec):
        return exp.setdefault(f"/summary/{SECTION_NAMES[sec]}", {})

    def extra(sec, n, value_fn, conv=lambda v: v, forbid=()):
        for _ in range(n):
            k = ident(rng, 2, 14, forbid)
            if k in group(sec) or any(e[0] == sec and e[1] == k for e in entries):
                continue
            v = value_fn(rng)
            entries.append((sec, k, v))
            group(sec)[k] = conv(v)

    if "Odi" in sections:
        extra("Odi", rng.randrange(1, 5), free_text)
    if "Scs" in sections:
        entries.append(("Scs", "SceneID", scene_id))
        group("Scs").update(mission_name="ALOS2", orbit_accumulation=orbit, scene_frame=frame, date=d.isoformat())
        v = str(rng.randrange(-5, 6))
        entries.append(("Scs", "SceneShift", v))
        group("Scs")["SceneShift"] = int(v)
        extra("Scs", rng.randrange(0, 3), free_text, forbid=("SceneID", "SceneShift"))
    if "Pds" in sections:
        entries.append(("Pds", "ProductID", pid))
        group("Pds").update(c15.rec_product_id(pid)[1])
        code = rng.choice(sorted(RESAMPLING))
        entries.append(("Pds", "ResamplingMethod", code))
        group("Pds")["ResamplingMethod"] = RESAMPLING[code]
        v = str(rng.randrange(1, 61))
        entries.append(("Pds", "UTM_ZoneNo", v))
        group("Pds")["UTM_ZoneNo"] = int(v)
        for k in ("MapDirection", "OrbitDataPrecision", "AttitudeDataPrecision"):
            if rng.random() < 0.7:
                v = free_text(rng)
                entries.append(("Pds", k, v))
                group("Pds")[k] = v
        extra("Pds", rng.randrange(0, 4), float_text, float,
              forbid=("ProductID", "ResamplingMethod", "UTM_ZoneNo", "MapDirection", "OrbitDataPrecision", "AttitudeDataPrecision"))
    if "Img" in sections:
        for k in ("SceneCenterDateTime", "SceneStartDateTime", "SceneEndDateTime"):
            if rng.random() < 0.7:
                text, value = datetime_text(rng)
                entries.append(("Img", k, text))
                group("Img")[k] = ("datetime", value)
        extra("Img", rng.randrange(0, 4), float_text, float, forbid=("DateTime",))
    # product information (always present: the reader needs the file names)
    tag = product.level_tag(level)
    files = [names["volume_directory"], names["sar_leader"], *names["sar_imagery"], names["sar_trailer"]]
    if rng.random() < 0.8:
        entries.append(("Pdi", f"CntOf{tag}ProductFileName", str(len(files))))
    for i, f in enumerate(files, start=1):
        entries.append(("Pdi", f"{tag}ProductFileName{i:02d}", f))
    exp["/summary/product_information/data_files"] = {
        "volume_directory": files[0], "sar_leader": files[1], "sar_imagery": files[2:-1], "sar_trailer": files[-1],
    }
    pi = group("Pdi")
    if rng.random() < 0.8:
        entries.append(("Pdi", "ProductFormat", "CEOS"))
        pi["ProductFormat"] = "CEOS"
    if rng.random() < 0.8:
        v = rng.choice(["16", "32", "8"])
        entries.append(("Pdi", "BitPixel", v))
        pi["BitPixel"] = int(v)
    if rng.random() < 0.8:
        v = float_text(rng)
        entries.append(("Pdi", "ProductDataSize", v))
        pi["ProductDataSize"] = float(v)
    shapes = {}
    for idx in range(case["n_shapes"]):
        p, l = rng.randrange(1, 30000), rng.randrange(1, 60000)
        entries.append(("Pdi", f"NoOfPixels_{idx}", str(p)))
        entries.append(("Pdi", f"NoOfLines_{idx}", str(l)))
        shapes[str(idx)] = (p, l)
    if shapes:
        exp["/summary/product_information/shapes"] = shapes
    extra("Pdi", rng.randrange(0, 3), free_text,
          forbid=("ProductFileName", "NoOfPixels", "NoOfLines", "ProductFormat", "BitPixel", "ProductDataSize"))
    if "Ach" in sections:
        for _ in range(rng.randrange(1, 5)):
            k = ident(rng, 2, 12)
            if k in group("Ach"):
                continue
            v = rng.choice(["", "", "GOOD", "FAIR", free_text(rng)])
            entries.append(("Ach", k, v))
            group("Ach")[k] = v or "N/A"
    if "Rad" in sections:
        extra("Rad", rng.randrange(1, 4), free_text)
    if "Lbi" in sections:
        if rng.random() < 0.8:
            dd = dt.date(2014, 1, 1) + dt.timedelta(days=rng.randrange(13149))
            entries.append(("Lbi", "ObservationDate", f"{dd:%Y%m%d}"))
            group("Lbi")["ObservationDate"] = dd.isoformat()
        if rng.random() < 0.8:
            code = rng.choice(sorted(FACILITIES))
            entries.append(("Lbi", "ProcessFacility", code))
            group("Lbi")["ProcessFacility"] = FACILITIES[code]
        extra("Lbi", rng.randrange(0, 3), free_text, forbid=("ObservationDate", "ProcessFacility"))
    return entries, exp, names, scene_id, pid


def corrupt(line, op, rng):
    if op == "no-separator":
        return line.replace('="', ":").replace('"', "'")
    if op == "junk-after-quote":
        return line + rng.choice(["x", " ", "'", ";", "0"])
    if op == "bad-section":
        return rng.choice(["1", "_", "-", " "]) + line[1:] if rng.random() < 0.5 else line[:2] + "_" + line[4:]
    if op == "no-underscore":
        return line[:3] + rng.choice(["-", ".", "x", ""]) + line[4:]
    if op == "blank":
        return ""
    raise ValueError(op)


OPS = ["no-separator", "junk-after-quote", "bad-section", "no-underscore", "blank"]


def render(case):
    entries, exp, names, scene_id, pid = build_entries(case)
    lines = [f'{s}_{k}="{v}"' for s, k, v in entries]
    for line, (s, k, v) in zip(lines, entries):
        assert ref_parse_line(line) == (s, k, v), ("generator/recogniser disagree", line)
    order = list(range(len(lines)))
    random.Random(case["shuffle"]).shuffle(order)
    if not case["shuffled"]:
        order = sorted(order)
    lines = [lines[i] for i in order]
    corrupted = {}
    rng = random.Random(case["vseed"] ^ 0x5EED)
    for pos, op in case.get("corrupt", []):
        idx = pos % len(lines)
        if idx in corrupted:
            continue
        new = corrupt(lines[idx], op, rng)
        if ref_parse_line(new) is not None:
            continue  # not unambiguously malformed: leave the line alone
        lines[idx] = new
        corrupted[idx] = op
    newline = case["newline"]
    text = newline.join(lines)
    if case["trailing_newline"] and not (lines and lines[-1] == ""):
        text += newline
    elif lines and lines[-1] == "":
        # a blank last line only exists as a line if something follows it
        text += newline
    return text, exp, corrupted, names, scene_id, pid


# ---------------------------------------------------------------------------------------------------
# oracle
# ---------------------------------------------------------------------------------------------------


def attr_equal(want, got):
    if isinstance(want, tuple) and want and want[0] == "datetime":
        if not isinstance(got, str):
            return False
        try:
            return dt.datetime.fromisoformat(got) == want[1]
        except ValueError:
            return False
    if isinstance(want, tuple):
        return isinstance(got, tuple) and list(got) == list(want)
    if isinstance(want, float):
        return isinstance(got, float) and got == want
    if isinstance(want, bool) or isinstance(got, bool):
        return want is got
    if isinstance(want, int):
        return isinstance(got, int) and got == want
    if isinstance(want, list):
        return isinstance(got, (list, tuple)) and list(got) == want
    return type(got) is type(want) and got == want


def compare_summary(exp, observed_groups):
    """observed_groups: {path: attrs}"""
    out = []
    for path, attrs in exp.items():
        got = observed_groups.get(path)
        if got is None:
            out.append(harness.disc("group-missing", path, sorted(attrs), None))
            continue
        for k, v in attrs.items():
            if k not in got:
                out.append(harness.disc("entry-missing", f"{path}@{k}", v, None))
            elif not attr_equal(v, got[k]):
                out.append(harness.disc("entry-value", f"{path}@{k}", v, got[k]))
        for k in got:
            if k not in attrs:
                out.append(harness.disc("entry-unexpected", f"{path}@{k}", None, got[k]))
    for path in observed_groups:
        if path not in exp and path != "/summary" and observed_groups[path]:
            out.append(harness.disc("group-unexpected", path, None, sorted(observed_groups[path])))
    return out


def groups_of_hierarchy(group, path="/summary"):
    out = {path: dict(group.attrs)}
    for name, sub in group.groups.items():
        out.update(groups_of_hierarchy(sub, f"{path}/{name}"))
    return out


def groups_of_tree(tree):
    out = {}
    for node in tree["summary"].subtree:
        out[node.path] = dict(node.attrs)
    return out


def judge_error(err, corrupted, n_lines):
    if not isinstance(err, BaseExceptionGroup):
        return [harness.disc("wrong-exception", "malformed summary", "one ExceptionGroup", harness.exc_text(err))]
    import re

    named = []
    for sub in err.exceptions:
        m = re.search(r"line\s+(\d+)", str(sub.args[0]) if sub.args else str(sub))
        if m is None:
            return [harness.disc("error-without-line-number", "malformed summary", "line numbers", harness.exc_text(sub))]
        named.append(int(m.group(1)))
    want0 = sorted(corrupted)
    want1 = [i + 1 for i in want0]
    if sorted(named) not in (want0, want1):
        return [harness.disc("wrong-lines-reported", "malformed summary", want0, sorted(named), ops=[corrupted[i] for i in want0])]
    return []


def run_case(case):
    if case.get("kind") == "fuzz-input":
        return run_fuzz_input(case)
    text, exp, corrupted, names, scene_id, pid = render(case)
    via = case["via"]
    if via == "open_alos2":
        spec = common.spec_from({"level": case["level"], "images": case["images"], "vseed": case["vseed"], "product_id": pid, "scene_id": scene_id})
        files, info = product.build_product(spec)
        files["summary.txt"] = text.encode()
        with harness.Materialised(files, "memory") as prod:
            tree, err = harness.guard(harness.open_tree, prod.url, use_cache=False)
            if err is None:
                observed = groups_of_tree(tree)
                imagery = list(tree["imagery"].children)
        if err is None and not corrupted:
            out = compare_summary(exp, observed)
            want = common.group_names(spec)
            if imagery != want:
                out.append(harness.disc("file-roles", "/imagery", want, imagery))
            return out
    else:
        from ceos_alos2.summary import open_summary

        # a real fsspec mapper (as open_alos2 passes it), not a stand-in: the reader may use
        # any part of the mapper interface
        import fsspec

        root = f"memory:///vfsummary-{__import__('os').getpid()}"
        mapper = fsspec.get_mapper(root)
        mapper["summary.txt"] = text.encode()
        try:
            group, err = harness.guard(open_summary, mapper, "summary.txt")
        finally:
            del mapper["summary.txt"]
        if err is None and not corrupted:
            return compare_summary(exp, groups_of_hierarchy(group))
    if corrupted:
        if err is None:
            return [harness.disc("malformed-accepted", "malformed summary", f"ExceptionGroup naming lines {sorted(corrupted)}", "parsed", ops=sorted(set(corrupted.values())))]
        return judge_error(err, corrupted, None)
    return [harness.disc("exception", "well-formed summary", "parsed", harness.exc_text(err))]


@st.composite
def cases(draw, via_weights=("summary",) * 9 + ("open_alos2",)):
    level = draw(st.sampled_from(["1.1", "1.5", "3.1"]))
    n_images = draw(st.integers(1, 7))
    combos = [(p, None) for p in common.POLS] + [(p, f"F{n}") for n in (1, 2) for p in common.POLS[:2]]
    picked = draw(st.permutations(combos))[:n_images]
    case = {
        "level": level,
        "images": [{"pol": p, "scan": s, "lines": 1, "pixels": 1} for p, s in picked],
        "sections": sorted(draw(st.sets(st.sampled_from(sorted(SECTION_NAMES)), min_size=0))),
        "n_shapes": draw(st.one_of(st.integers(0, 3), st.integers(0, 16))),
        "newline": draw(st.sampled_from(["\n", "\n", "\r\n"])),
        "trailing_newline": draw(st.booleans()),
        "shuffled": draw(st.sampled_from([True, True, True, False])),
        "shuffle": draw(st.integers(0, 10**6)),
        "vseed": draw(st.integers(0, 2**32 - 1)),
        "via": draw(st.sampled_from(list(via_weights))),
    }
    if draw(st.booleans()):
        one = st.tuples(st.integers(0, 200), st.sampled_from(OPS))
        # mostly a handful of damaged lines, sometimes dozens (round 14, C14n: reports capped at 20)
        case["corrupt"] = draw(st.one_of(st.lists(one, min_size=1, max_size=5), st.lists(one, min_size=1, max_size=5),
                                         st.lists(one, min_size=25, max_size=80)))
    return case


EXOTIC_SEPARATORS = set("\x0b\x0c\x1c\x1d\x1e\x85\u2028\u2029")


def fuzz_parse_summary(data):
    """three-valued differential oracle for parse_summary on arbitrary text; returns (discs, judged)"""
    from ceos_alos2.summary import parse_summary

    try:
        text = data.decode("utf-8")
    except UnicodeDecodeError:
        return [], False
    if any(c in EXOTIC_SEPARATORS for c in text) or "\r" in text.replace("\r\n", ""):
        return [], False  # what a 'line' is is not documented for these separators
    lines = text.replace("\r\n", "\n").split("\n")
    if lines and lines[-1] == "":
        lines.pop()
    parsed = [ref_parse_line(line) for line in lines]
    bad = [i for i, p in enumerate(parsed) if p is None]
    result, err = harness.guard(parse_summary, text)
    if bad:
        if err is None:
            return [harness.disc("malformed-accepted", "fuzz parse_summary", f"error group naming lines {bad[:5]}", "parsed")], True
        return judge_error(err, {i: "fuzz" for i in bad}, None), True
    if err is not None:
        return [harness.disc("exception", "fuzz parse_summary", "parsed", harness.exc_text(err))], True
    # all lines valid: compare unless duplicates / section case collisions make the merge ambiguous
    want = {}
    seen = set()
    spellings = {}
    for sec, key, value in parsed:
        if (sec.lower(), key) in seen:
            return [], False
        seen.add((sec.lower(), key))
        spellings.setdefault(sec.lower(), set()).add(sec)
        want.setdefault(sec.lower(), {})[key] = value
    if any(len(v) > 1 for v in spellings.values()):
        return [], False
    got = {k: dict(v) for k, v in result.items()}
    if got != want:
        return [harness.disc("entry-value", "fuzz parse_summary", want, got)], True
    return [], True


FUZZ_TARGETS = {"parse_summary": fuzz_parse_summary}


def run_fuzz_input(case):
    discs, _ = FUZZ_TARGETS[case["target"]](bytes.fromhex(case["data"]))
    return discs


def plan(tier):
    n = 4000 if tier == "quick" else 200000
    stages = [{"kind": "hyp", "name": "summaries", "strategy": cases(), "examples": n}]
    if tier == "thorough":
        seeds = [b'Odi_A="b"\nScs_SceneShift="0"\n', b'Pdi_L11ProductFileName01="VOL-X"\r\nAch_PRF_Check=""\r\n']
        stages.append({"kind": "fuzz", "name": "atheris-parse_summary", "target": "parse_summary", "seconds": 300,
                       "corpus": seeds, "shard_all": True, "max_len": 256, "dict": ['=\\"', '\\"', "_", "Odi_", "\\x0a", "\\x0d\\x0a"]})
        stages.append({"kind": "fuzz", "name": "atheris-parse_summary-empty-corpus", "target": "parse_summary", "seconds": 120,
                       "corpus": [], "max_len": 128})
    return stages


def classify(case):
    if case.get("kind") == "fuzz-input":
        return True, ["fuzz-finding"]
    text, exp, corrupted, *_ = render(case)
    labels = [f"via={case['via']}", "CRLF" if case["newline"] == "\r\n" else "LF"]
    if corrupted:
        labels.append(f"corrupted={min(len(corrupted), 3)}{'+' if len(corrupted) > 3 else ''}")
        if len(corrupted) > 20:
            labels.append("corrupted>20")
        labels.extend(f"op={op}" for op in set(corrupted.values()))
    tricky = any(('"' in v or "=" in v) for _, attrs in exp.items() for v in attrs.values() if isinstance(v, str))
    if tricky:
        labels.append("quote-or-equals-in-value")
    nontrivial = case["shuffled"] and (tricky or case["newline"] == "\r\n" or len(corrupted) >= 2)
    return nontrivial, labels


LEVEL_TEXT = (
    "Grammar-based property testing of the summary reader with a model of the documented "
    "conversions and an independent line recogniser; malformed variants check the error-reporting "
    "contract (one error group naming exactly the corrupted lines). Sampling of an infinite text domain."
)
LEVEL_NOTE = "Trusted base: the conversion tables and line recogniser in vf/props/c14.py; C15's code tables."
TECHNIQUE = "grammar-based Hypothesis generation + corruption operators; reference-model oracle and independent recogniser"
