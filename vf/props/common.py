"""helpers shared by the property modules"""

import contextlib

from vf import harness
from vf.ceosgen import product

POLS = ["HH", "HV", "VH", "VV"]
PRODUCT_IDS = {"1.1": "HBQR1.1__A", "1.5": "HBQR1.5RUA", "3.1": "HBQR3.1RUA"}


def spec_from(case):
    """compact case dict -> full product spec (defaults for everything not in the case)"""
    level = case.get("level", "1.5")
    images = []
    for i, im in enumerate(case["images"]):
        img = dict(im)
        img.setdefault("pol", POLS[i % 4])
        img.setdefault("scan", None if i < 4 else f"F{i // 4}")
        images.append(img)
    leader = product.default_leader_params()
    leader.update(case.get("leader", {}))
    if "instant" in case:
        leader["instant"] = case["instant"]
    spec = {
        "level": level,
        "scene_id": case.get("scene_id", "ALOS2014410740-140829"),
        "product_id": case.get("product_id", PRODUCT_IDS[level]),
        "images": images,
        "leader": leader,
        "volume": {"n_file_pointers": case.get("n_file_pointers", 2 + len(images))},
        "policy": case.get("policy", "decoy"),
        "vseed": case.get("vseed", 0),
    }
    for key in ("mode", "enum_cycle", "leader_overrides", "volume_overrides", "lowres",
                "summary_entries", "newline", "trailing_newline", "trailing"):
        if key in case:
            spec[key] = case[key]
    return spec


def group_name(img):
    name = img["pol"]
    if img.get("scan"):
        name += f"_scan{img['scan'][1]}"
    return name


def group_names(spec):
    return [group_name(im) for im in spec["images"]]


def float_word_class(word):
    exp = (word >> 23) & 0xFF
    frac = word & 0x7FFFFF
    if exp == 0xFF:
        return "nan" if frac else "inf"
    if exp == 0:
        return "zero" if frac == 0 else "denormal"
    return "normal"


# ---------------------------------------------------------------------------------------------
# a generic strategy of whole-product cases (compact dicts; values come from `vseed`)
# ---------------------------------------------------------------------------------------------

from hypothesis import strategies as st  # noqa: E402

HEADER_OPTIONAL = product.HEADER_OPTIONAL


@st.composite
def instants(draw):
    year = draw(st.integers(2014, 2049))
    leap = year % 4 == 0
    doy = draw(st.one_of(st.sampled_from([1, 59, 60, 365, 366 if leap else 365]), st.integers(1, 366 if leap else 365)))
    ms = draw(st.one_of(st.sampled_from([0, 86_399_999, 43_200_000]), st.integers(0, 86_399_999)))
    us = draw(st.one_of(st.sampled_from([0, 999]), st.integers(0, 999)))
    # how many fraction digits the decimal-seconds texts of the leader carry (ms ... us)
    digits = draw(st.sampled_from([3, 3, 4, 5, 6, 6]))
    return {"year": year, "doy": doy, "ms": ms, "us": us, "frac_digits": digits}


@st.composite
def product_cases(draw, max_lines=12, max_pixels=6, max_images=3, levels=("1.1", "1.5", "3.1")):
    level = draw(st.sampled_from(list(levels)))
    n_images = draw(st.integers(1, max_images))
    scansar = draw(st.booleans()) and n_images > 1
    combos = [(p, None) for p in POLS]
    if scansar:
        letter = draw(st.sampled_from(["B", "F"]))
        combos = [(p, f"{letter}{n}") for n in range(1, 6) for p in POLS[:2]]
    picked = draw(st.permutations(combos))[:n_images]
    images = []
    for pol, scan in picked:
        im = {
            "pol": pol,
            "scan": scan,
            "lines": draw(st.integers(1, max_lines)),
            "pixels": draw(st.integers(1, max_pixels)),
        }
        blank = draw(st.lists(st.sampled_from(HEADER_OPTIONAL), unique=True, max_size=5))
        if blank:
            im["blank_header"] = sorted(blank)
        if draw(st.integers(0, 3)) == 0:
            im["cross_midnight"] = draw(st.sampled_from([True, True, "overflow"]))  # line times run over midnight when the instant is late in the day
        if draw(st.integers(0, 4)) == 0:
            im["line_numbers"] = draw(st.sampled_from(["restart", "zeros"]))
        images.append(im)
    leader = {
        "n_att": draw(st.integers(1, 6)),
        "n_channels": draw(st.integers(1, 4)),
        "map_projection": draw(st.booleans()) if level != "1.1" else draw(st.sampled_from([False, False, True])),
        "designator": draw(st.sampled_from(product.DESIGNATORS)),
        "facility_lengths": [draw(st.integers(66, 160)) for _ in range(4)],
        "instant": draw(instants()),
        "repeat_attitude_times": draw(st.sampled_from([False, False, True])),
        "scene_center_offset_ms": draw(st.sampled_from([0, 0, 600_000, 3_600_000])),
    }
    return {
        "level": level,
        "images": images,
        "leader": leader,
        "n_file_pointers": draw(st.integers(0, 6)),
        "policy": draw(st.sampled_from(["decoy", "decoy", "blank"])),
        "vseed": draw(st.integers(0, 2**32 - 1)),
    }


def in_place_pairs(strategy, stale_index=False):
    """strategy of in-place pair cases {"__pair__": [a, b]}: b is aligned with a so that both
    products have the same root AND the same file names (same level, product id, polarisations,
    scans, filesystem kind) while geometry, counts and all field values differ"""

    def align(ab):
        a, b, how = ab
        b = dict(b)
        if stale_index and how:
            # the first product leaves an index behind (how >= 1); the second open also asks for
            # a fresh one (how == 2): "ignore and rebuild" over an index of the replaced file
            a = dict(a, create_cache=True)
            if how == 2:
                b["create_cache"] = True
        b["level"] = a.get("level", b.get("level"))
        for key in ("fs", "scene_id", "product_id", "naming"):
            if key in a:
                b[key] = a[key]
            else:
                b.pop(key, None)
        if "images" in a and "images" in b:
            images = []
            for i, ia in enumerate(a["images"]):
                ib = dict(b["images"][i % len(b["images"])])
                for key in ("pol", "scan"):
                    if key in ia:
                        ib[key] = ia[key]
                    else:
                        ib.pop(key, None)
                images.append(ib)
            b["images"] = images
        return {"__pair__": [a, b]}

    return st.tuples(strategy, strategy, st.integers(0, 2)).map(align)


def drop_user_cache(url, images):
    """remove the index files a case wrote into the (per-worker) user cache dir"""
    import contextlib

    from vf.props import c07

    for image in images:
        p = c07.user_index_path(url, image)
        p.unlink(missing_ok=True)
        with contextlib.suppress(OSError):
            p.parent.rmdir()


@contextlib.contextmanager
def open_under_read_fault(files, target, nth, **opts):
    """the product on vtrace://, opened while the nth read of the file `target` fails once with
    OSError (a flaky mount, a remote store timing out).  Yields (tree, error, fault consumed); the
    fault is disarmed before the block runs, so loads inside it read undisturbed.  The contract
    judged by the callers: such an open may raise that OSError - but a tree that IS returned must
    be the tree of the files."""
    from vf import vtrace

    with harness.Materialised(files, "vtrace") as prod:
        vtrace.STORE.fail_path, vtrace.STORE.fail_reads, vtrace.STORE.fail_skip = target, 1, nth - 1
        try:
            tree, err = harness.guard(harness.open_tree, prod.url, **opts)
        finally:
            consumed = vtrace.STORE.fail_reads == 0
            vtrace.STORE.fail_path, vtrace.STORE.fail_reads, vtrace.STORE.fail_skip = None, 0, 0
        yield tree, err, consumed


def judge_fault_error(err, what):
    """an open that fails under an injected read fault is fail-stop, whatever it raises (the
    OSError itself, an exception chained to it, a parser error about the short read): nothing to
    report - only a tree that is RETURNED under the fault is judged by the callers"""
    return []


@contextlib.contextmanager
def open_in_mode(files, images, mode, **opts):
    """the product opened in one of three ways: 'plain' (memory://, uncached), 'creating' (local
    path; the judged tree is the one returned by the open that also writes the index cache),
    'cached' (local path; a first open writes the cache, the judged one is served from it).
    Yields (tree, error); the user cache dir is cleaned afterwards."""
    opts = dict(opts)
    opts.pop("use_cache", None)
    with harness.Materialised(files, "memory" if mode == "plain" else "local") as prod:
        try:
            if mode == "plain":
                yield harness.guard(harness.open_tree, prod.url, use_cache=False, **opts)
            else:
                tree, err = harness.guard(harness.open_tree, prod.url, use_cache=False, create_cache=True, **opts)
                if err is None and mode == "cached":
                    tree, err = harness.guard(harness.open_tree, prod.url, use_cache=True, **opts)
                yield tree, err
        finally:
            if mode != "plain":
                drop_user_cache(prod.url, images)
