"""helpers shared by the property modules"""

from vf.ceosgen import product

POLS = ["HH", "HV", "VH", "VV"]
PRODUCT_IDS = {"1.1": "HBQR1.1__A", "1.5": "HBQR1.5RUA", "3.1": "HBQR3.1RUA"}


def spec_from(case):
    """compact case dict -> full product spec (defaults for everything not in the case)"""
    level = case.get("level", "1.5")
    images = []
    for i, im in enumerate(case["images"]):
        img = dict(im)
        img.setdefault("pol", POLS[i % 4])
        img.setdefault("scan", None if i < 4 else f"F{i // 4}")
        images.append(img)
    leader = product.default_leader_params()
    leader.update(case.get("leader", {}))
    if "instant" in case:
        leader["instant"] = case["instant"]
    spec = {
        "level": level,
        "scene_id": case.get("scene_id", "ALOS2014410740-140829"),
        "product_id": case.get("product_id", PRODUCT_IDS[level]),
        "images": images,
        "leader": leader,
        "volume": {"n_file_pointers": case.get("n_file_pointers", 2 + len(images))},
        "policy": case.get("policy", "decoy"),
        "vseed": case.get("vseed", 0),
    }
    for key in ("mode", "enum_cycle", "leader_overrides", "volume_overrides", "lowres",
                "summary_entries", "newline", "trailing_newline"):
        if key in case:
            spec[key] = case[key]
    return spec


def group_name(img):
    name = img["pol"]
    if img.get("scan"):
        name += f"_scan{img['scan'][1]}"
    return name


def group_names(spec):
    return [group_name(im) for im in spec["images"]]


def float_word_class(word):
    exp = (word >> 23) & 0xFF
    frac = word & 0x7FFFFF
    if exp == 0xFF:
        return "nan" if frac else "inf"
    if exp == 0:
        return "zero" if frac == 0 else "denormal"
    return "normal"
