"""C07 Cache transparency: opening via an index cache equals opening without one."""

import contextlib
import hashlib
import io
import itertools
import pathlib
import shutil
import sys
import tempfile

from hypothesis import strategies as st

from vf import harness, vtrace
from vf.ceosgen import product
from vf.props import common

ID = "C07"
LEVEL = "exploration"
RULE = (
    "Configuration product level {1.1,1.5} x image naming {by polarisation, by ScanSAR scan suffix only} x producer {create_cache=True, CLI main() with --rpc} x "
    "location {user cache dir, adjacent, both} x product filesystem {local path, file:// URL, "
    "memory://, custom vtrace://} x rpc_write x rpc_read in {1, 2, N, N+1, 1024} x decoy x options dicts {fresh per call, one object re-used by the calls with equal options} x process time zone {UTC, 8 h west, 9 h east; vtrace:// reports modification times like the local filesystem does}: a "
    "pairwise-covering sample in quick (Hypothesis draws the rest), the full cross product in "
    "thorough. Oracles: (i) tree(use_cache=True) == tree(use_cache=False) leaf for leaf incl. "
    "dtypes, pixels and preferred_chunksizes from the CURRENT rpc; (ii) decoy caches (well-formed "
    "index files with different shape/attrs) in both locations never influence use_cache=False; "
    "(iii) with a usable cache the vtrace log of open_alos2 has no read touching bytes >= 720 of "
    "any IMG file; (iv) with no cache present use_cache=True equals the uncached tree; (v) with a "
    "stale (decoy) index in the user cache dir, open(use_cache=False, create_cache=True) produces "
    "the cache again and the following use_cache=True open equals the uncached tree; (vi) the same "
    "with the command line tool run over stale index files (local products). "
    "Non-trivial: rpc_write != rpc_read or location=both or non-local filesystem."
)
ASSUMPTIONS = [
    "for CLI-made caches of non-local products the index is uploaded next to the image / into the hashed user dir by the harness (the CLI only takes local paths)",
    "open finding D5 (cache root loses the protocol) is filtered by signature: non-local protocol and the image `data` values only",
]
BUDGET = {"quick": 150, "thorough": 2400}
JOBS = {"quick": 4, "thorough": 16}


def root_of(url):
    import fsspec

    return fsspec.get_mapper(url).root


def user_index_path(url, image):
    h = hashlib.sha256(root_of(url).encode()).hexdigest()
    return harness.user_cache_root() / h / f"{image}.index"


def put_adjacent(prod, image, text):
    if prod.kind in ("local", "file"):
        (prod.dir / f"{image}.index").write_text(text)
    elif prod.kind == "memory":
        import fsspec

        fsspec.filesystem("memory").pipe(f"/{prod.name}/{image}.index", text.encode())
    else:
        vtrace.STORE.put(f"{prod.name}/{image}.index", text.encode())


def remove_adjacent(prod, image):
    if prod.kind in ("local", "file"):
        (prod.dir / f"{image}.index").unlink(missing_ok=True)
    elif prod.kind == "memory":
        import fsspec

        with contextlib.suppress(FileNotFoundError):
            fsspec.filesystem("memory").rm(f"/{prod.name}/{image}.index")
    else:
        vtrace.STORE.remove(f"{prod.name}/{image}.index")


def run_cli(argv):
    """run ceos-alos2-create-cache in process; returns (exit code, stderr)"""
    from ceos_alos2.sar_image import cli

    old_argv = sys.argv
    sys.argv = ["ceos-alos2-create-cache", *argv]
    stderr = io.StringIO()
    try:
        with contextlib.redirect_stderr(stderr):
            cli.main()
        return 0, stderr.getvalue()
    except SystemExit as e:
        return (e.code if isinstance(e.code, int) else 1), stderr.getvalue()
    except Exception as e:  # noqa: BLE001 - the tool crashed: data for the oracle
        return -1, "uncaught " + harness.exc_text(e)
    finally:
        sys.argv = old_argv


def produce(case, prod, files, images):
    """create the index files; returns (discrepancies, texts {image: index text})"""
    url = prod.url
    texts = {}
    if case["producer"] == "option":
        tree, err = harness.guard(
            harness.open_tree, url, create_cache=True, use_cache=False, records_per_chunk=case["rpc_write"]
        )
        if err is not None:
            return [harness.disc("exception", "open_alos2(create_cache=True)", "cache written", harness.exc_text(err))], texts
        for image in images:
            path = user_index_path(url, image)
            if not path.is_file():
                return [harness.disc("cache-not-written", str(path.name), "index file in the user cache dir", "missing")], texts
            texts[image] = path.read_text()
            if case["location"] == "adjacent":
                path.unlink()
        if case["location"] in ("adjacent", "both"):
            for image in images:
                put_adjacent(prod, image, texts[image])
        return [], texts
    # CLI
    if prod.kind in ("local", "file"):
        local_dir, tmp = prod.dir, None
    else:
        tmp = pathlib.Path(tempfile.mkdtemp(prefix="vfcli-", dir=harness.scratch_root()))
        local_dir = tmp / prod.name
        local_dir.mkdir()
        for image in images:
            (local_dir / image).write_bytes(files[image])
    try:
        for image in images:
            target = None
            if case["location"] == "user" and prod.kind in ("local", "file"):
                target = user_index_path(url, image).parent
                target.mkdir(parents=True, exist_ok=True)
            argv = ["--rpc", str(case["rpc_write"]), str(local_dir / image)]
            if target is not None:
                argv.append(str(target))
            code, stderr = run_cli(argv)
            out_file = (target or local_dir) / f"{image}.index"
            if code != 0 or not out_file.is_file():
                return [harness.disc("cli-failed", "ceos-alos2-create-cache", "index file written", f"exit {code}: {stderr[:150]}")], texts
            texts[image] = out_file.read_text()
            if prod.kind not in ("local", "file"):
                out_file.unlink()
        for image in images:
            if case["location"] in ("user", "both"):
                path = user_index_path(url, image)
                path.parent.mkdir(parents=True, exist_ok=True)
                path.write_text(texts[image])
            if case["location"] in ("adjacent", "both"):
                put_adjacent(prod, image, texts[image])
            elif prod.kind in ("local", "file"):
                (prod.dir / f"{image}.index").unlink(missing_ok=True)
    finally:
        if tmp is not None:
            shutil.rmtree(tmp, ignore_errors=True)  # the local copy is gone before the cache is used
    return [], texts


def cli_over_stale(case, prod, images, texts, url, ref_flat):
    out = []
    for image in images:
        decoy = decoy_of(texts[image])
        p = user_index_path(url, image)
        p.parent.mkdir(parents=True, exist_ok=True)
        p.write_text(decoy)
        put_adjacent(prod, image, decoy)
    to_user = case["location"] == "user"
    for image in images:
        argv = ["--rpc", str(case["rpc_write"]), str(prod.dir / image)]
        if to_user:
            argv.append(str(user_index_path(url, image).parent))
        code, stderr = run_cli(argv)
        if code != 0:
            return [harness.disc("cli-failed", "ceos-alos2-create-cache over a stale index", "index file written", f"exit {code}: {stderr[:150]}")]
        # the other location holds no index any more: the tool's output is the only cache
        if to_user:
            remove_adjacent(prod, image)
        else:
            user_index_path(url, image).unlink(missing_ok=True)
    t, err = harness.guard(harness.open_tree, url, use_cache=True, records_per_chunk=case["rpc_read"])
    if err is not None:
        out.append(harness.disc("exception", "open_alos2(use_cache=True) after the tool re-created the cache", "a tree", harness.exc_text(err)))
    else:
        out.extend(harness.diff_flat(ref_flat, harness.flatten(t), kind="stale-cache-kept-by-tool"))
    return out


def decoy_of(text):
    """a well-formed index whose content is deliberately different"""
    import json

    doc = json.loads(text)
    doc["attrs"] = dict(doc.get("attrs", {}), DECOY="planted")
    data = doc.get("data", {})
    if "data" in data and isinstance(data["data"].get("data"), dict):
        arr = data["data"]["data"]
        shape = arr.get("shape")
        if isinstance(shape, dict) and shape.get("__type__") == "tuple":
            shape["data"] = [shape["data"][0] + 1, shape["data"][1]]
        elif isinstance(shape, list):
            arr["shape"] = [shape[0] + 1, shape[1]]
    for name, var in data.items():
        if isinstance(var, dict) and var.get("__type__") == "variable" and name != "data":
            inner = var["data"]
            if inner.get("__type__") == "array" and inner["dtype"].startswith(("int", "float")) and inner["data"]:
                inner["data"][0] = 12345
                break
    return json.dumps(doc)


def cleanup(url, prod, images):
    for image in images:
        p = user_index_path(url, image)
        p.unlink(missing_ok=True)
        with contextlib.suppress(OSError):
            p.parent.rmdir()
        remove_adjacent(prod, image)


def is_image_data(key):
    return key.startswith("/imagery/") and key.endswith("#data")


def image_reads_beyond_descriptor(events):
    bad = []
    for ev in events:
        if ev[0] == "read" and "IMG-" in ev[1] and not ev[1].endswith(".index"):
            pos, size = ev[3], ev[4]
            if pos + size > 720:
                bad.append(ev)
        if ev[0] == "cat_file" and "IMG-" in ev[1] and not ev[1].endswith(".index"):
            end = ev[3]
            if end is None or end > 720:
                bad.append(ev)
    return bad


def run_case(case):
    n = case["lines"]
    spec = common.spec_from(
        {
            "level": case["level"],
            "images": [
                # (the per-line columns of the first image drift slowly: a large base value plus a small step per line)
                dict({"lines": n, "pixels": 3, "drift": case["vseed"] % 5 if case["vseed"] % 2 else None}, **({"pol": "HH", "scan": "F1"} if case.get("naming") == "scan" else {})),
                dict({"lines": max(1, n - 1), "pixels": 2}, **({"pol": "HH", "scan": "F2"} if case.get("naming") == "scan" else {})),
            ],
            "vseed": case["vseed"],
            "leader": {"map_projection": case["level"] != "1.1"},
        }
    )
    files, info = product.build_product(spec)
    images = info["names"]["sar_imagery"]
    out = []
    with harness.process_tz(case.get("tz")), harness.Materialised(files, case["fs"]) as prod:
        url = prod.url
        try:
            shared = {}

            def opened(**opts):
                """open_alos2 with these options; with 'reuse' the calls that have equal options hand
                the library the very same dict object again (build the options once, call often)"""
                import ceos_alos2

                if not case.get("reuse"):
                    return ceos_alos2.open_alos2(url, backend_options=dict(opts))
                return ceos_alos2.open_alos2(url, backend_options=shared.setdefault(harness.canonical(opts), dict(opts)))

            ref, err = harness.guard(opened, use_cache=False, records_per_chunk=case["rpc_read"])
            if err is not None:
                return [harness.disc("exception", "open_alos2(use_cache=False)", "a tree", harness.exc_text(err))]
            ref_flat = harness.flatten(ref)
            # (iv) no cache present: use_cache=True parses normally
            t, err = harness.guard(harness.open_tree, url, use_cache=True, records_per_chunk=case["rpc_read"])
            if err is not None:
                out.append(harness.disc("exception", "open_alos2(use_cache=True) without cache", "a tree", harness.exc_text(err)))
            else:
                out.extend(harness.diff_flat(ref_flat, harness.flatten(t), kind="no-cache-differs"))
            discs, texts = produce(case, prod, files, images)
            if discs:
                return out + discs
            # (i) + (iii)
            if case["fs"] == "vtrace":
                vtrace.STORE.clear()
            cached, err = harness.guard(opened, use_cache=True, records_per_chunk=case["rpc_read"])
            events = vtrace.STORE.snapshot() if case["fs"] == "vtrace" else []
            if err is not None:
                out.append(harness.disc("exception", "open_alos2(use_cache=True) with cache", "a tree", harness.exc_text(err)))
            else:
                bad = image_reads_beyond_descriptor(events)
                if bad:
                    out.append(harness.disc("line-records-reread", "open with usable cache", "no read beyond byte 720 of an image", bad[:3]))
                out.extend(harness.diff_flat(ref_flat, harness.flatten(cached), kind="cached-differs"))
            # (iii') the same open with create_cache=True added: a usable cache is still used (the
            # statement "with use_cache=True and a usable cache the line records are not re-read"
            # has no exception for it) and the tree is the same
            if case["fs"] == "vtrace":
                vtrace.STORE.clear()
            again, err = harness.guard(harness.open_tree, url, use_cache=True, create_cache=True, records_per_chunk=case["rpc_read"])
            events = vtrace.STORE.snapshot() if case["fs"] == "vtrace" else []
            if err is not None:
                out.append(harness.disc("exception", "open_alos2(use_cache=True, create_cache=True) with cache", "a tree", harness.exc_text(err)))
            else:
                bad = image_reads_beyond_descriptor(events)
                if bad:
                    out.append(harness.disc("line-records-reread", "open with usable cache and create_cache=True", "no read beyond byte 720 of an image", bad[:3]))
                out.extend(harness.diff_flat(ref_flat, harness.flatten(again), kind="cached-differs"))
            # (ii) decoys must not influence use_cache=False
            if case["decoy"]:
                for image in images:
                    decoy = decoy_of(texts[image])
                    p = user_index_path(url, image)
                    p.parent.mkdir(parents=True, exist_ok=True)
                    p.write_text(decoy)
                    put_adjacent(prod, image, decoy)
                t, err = harness.guard(opened, use_cache=False, records_per_chunk=case["rpc_read"])
                if err is not None:
                    out.append(harness.disc("exception", "open_alos2(use_cache=False) with decoys", "a tree", harness.exc_text(err)))
                else:
                    out.extend(harness.diff_flat(ref_flat, harness.flatten(t), kind="decoy-consulted"))
                # (v) a stale (well-formed but wrong) index in the user cache dir is replaced when the
                # cache is produced again: open(use_cache=False, create_cache=True) "produces a cache
                # for the image", after which the cached open must equal the uncached one
                for image in images:
                    remove_adjacent(prod, image)
                t, err = harness.guard(harness.open_tree, url, use_cache=False, create_cache=True, records_per_chunk=case["rpc_write"])
                if err is not None:
                    out.append(harness.disc("exception", "open_alos2(use_cache=False, create_cache=True) over a stale index", "a tree", harness.exc_text(err)))
                else:
                    out.extend(harness.diff_flat(
                        ref_flat, harness.flatten(t), kind="decoy-consulted",
                        ignore_encoding=is_image_data if case["rpc_write"] != case["rpc_read"] else (lambda key: False)))
                    t, err = harness.guard(opened, use_cache=True, records_per_chunk=case["rpc_read"])
                    if err is not None:
                        out.append(harness.disc("exception", "open_alos2(use_cache=True) after re-creating the cache", "a tree", harness.exc_text(err)))
                    else:
                        out.extend(harness.diff_flat(ref_flat, harness.flatten(t), kind="stale-cache-kept"))
                # (vi) the same with the command line tool: run over stale index files (in the user
                # dir and next to the image) it produces the cache of the image as it is now
                if prod.kind in ("local", "file"):
                    out.extend(cli_over_stale(case, prod, images, texts, url, ref_flat))
        finally:
            cleanup(url, prod, images)
    for d in out:
        d.setdefault("context", {})["fs"] = case["fs"]
    return out


AXES = {
    "level": ["1.1", "1.5"],
    "producer": ["option", "cli"],
    "location": ["user", "adjacent", "both"],
    "fs": ["local", "file", "memory", "vtrace"],
    "rpc_write": ["1", "2", "N", "N+1", "1024"],
    "rpc_read": ["1", "2", "N", "N+1", "1024"],
    "decoy": [False, True],
    # image files told apart by polarisation (IMG-HH / IMG-HV) or only by the scan suffix (-F1 / -F2)
    "naming": ["pol", "scan"],
    # time zone of the process (POSIX TZ strings: UTC, 8 h west, 9 h east of it)
    "tz": [None, "PST8", "JST-9"],
    # every open of the case gets a fresh options dict / the opens with equal options share ONE dict object
    "reuse": [False, True],
}


def concretise(cfg, lines=5, vseed=3):
    def rpc(v):
        return {"1": 1, "2": 2, "N": lines, "N+1": lines + 1, "1024": 1024}[v]

    case = dict(cfg)
    case["rpc_write"] = rpc(cfg["rpc_write"])
    case["rpc_read"] = rpc(cfg["rpc_read"])
    case["lines"] = lines
    case["vseed"] = vseed
    return case


def pairwise_cover():
    """greedy pairwise covering array over AXES (deterministic)"""
    names = list(AXES)
    uncovered = set()
    for a, b in itertools.combinations(range(len(names)), 2):
        for va in AXES[names[a]]:
            for vb in AXES[names[b]]:
                uncovered.add((a, va, b, vb))
    full = list(itertools.product(*AXES.values()))
    rows = []
    while uncovered:
        best, gain = None, -1
        for row in full[:: max(1, len(full) // 600)]:
            g = sum(1 for a, b in itertools.combinations(range(len(names)), 2) if (a, row[a], b, row[b]) in uncovered)
            if g > gain:
                best, gain = row, g
        if gain <= 0:
            # fall back: construct a row for one uncovered pair
            a, va, b, vb = next(iter(uncovered))
            best = tuple(va if i == a else vb if i == b else AXES[names[i]][0] for i in range(len(names)))
        rows.append(best)
        for a, b in itertools.combinations(range(len(names)), 2):
            uncovered.discard((a, best[a], b, best[b]))
    return [dict(zip(names, r)) for r in rows]


def enum_cases(tier):
    if tier == "quick":
        for i, cfg in enumerate(pairwise_cover()):
            yield concretise(cfg, lines=4 + i % 3, vseed=i)
    else:
        for i, row in enumerate(itertools.product(*AXES.values())):
            yield concretise(dict(zip(AXES, row)), lines=5, vseed=i % 7)


@st.composite
def random_cases(draw):
    cfg = {k: draw(st.sampled_from(v)) for k, v in AXES.items()}
    return concretise(cfg, lines=draw(st.integers(1, 9)), vseed=draw(st.integers(0, 2**32 - 1)))


def plan(tier):
    return [
        {"kind": "enum", "name": "configuration-product", "cases": lambda: enum_cases(tier), "exhaustive": tier == "thorough"},
        {"kind": "hyp", "name": "random-configurations", "strategy": random_cases(), "examples": 150 if tier == "quick" else 2000},
        # a second, different product delivered to the same path with its cache produced again
        {"kind": "hyp", "name": "in-place-pairs", "strategy": common.in_place_pairs(random_cases()), "examples": 40 if tier == "quick" else 1200},
    ]


def classify(case):
    nontrivial = case["rpc_write"] != case["rpc_read"] or case["location"] == "both" or case["fs"] in ("memory", "vtrace")
    return nontrivial, [f"fs={case['fs']}", f"producer={case['producer']}", f"location={case['location']}", f"level={case['level']}", f"decoy={case['decoy']}", f"naming={case.get('naming', 'pol')}", f"tz={case.get('tz')}", f"reuse={case.get('reuse')}"]


LEVEL_TEXT = (
    "Metamorphic testing over the finite configuration product (producer x location x filesystem "
    "x rpc at write x rpc at read x level x decoys): the cached tree must equal the uncached tree "
    "leaf for leaf; an instrumented filesystem shows that a usable cache avoids re-reading the "
    "line records. Pairwise-covering sample in quick, complete product in thorough."
)
LEVEL_NOTE = "Trusted: the harness's computation of the cache locations (sha256 of the fsspec mapper root, as documented); vtrace event log."
TECHNIQUE = "configuration enumeration (pairwise / full product) + Hypothesis; metamorphic oracle cached == uncached, decoy caches, I/O trace invariant"
