"""C06 records_per_chunk never changes what is read, only how."""

from hypothesis import strategies as st

from vf import harness
from vf.ceosgen import product
from vf.props import common

ID = "C06"
LEVEL = "exploration"
RULE = (
    "Stage 'all-rpc': for 6 fixed products (levels 1.1/1.5/3.1, N<=12 lines) every "
    "records_per_chunk in 1..N+2 plus {2N, 10^6, 2^31} against the baseline rpc=1 (enumerated), and three products whose lines run over midnight UTC with every rpc in 1..N+1. "
    "Stage 'pairs': Hypothesis draws a whole product (1-3 images, all leader/line fields from a "
    "value seed) and a pair (rpc1, rpc2) from {1, divisors, non-divisors, N-1, N, N+1, 2N, 10^6, "
    "2^31}. Oracle (metamorphic): the two flattened trees (child order, attrs, dims, dtypes, "
    "loaded values of every variable incl. pixels, coordinates, encodings) are identical except "
    "encoding.preferred_chunksizes of the image variable, which must be {rows: min(rpc, N), "
    "columns: P}; each tree is then read again in pieces (rows 1.., every 3rd row, all rows) and "
    "must return the pixels of its first full load. In half of the cases each judged open is the second call handed the same options dict object; in half of the generated pairs both opens are served from index caches (complete in the user dir / written by the tool next to the images / a torn index in the user dir in front of a complete one next to the images). Stage 'giant-chunk': one 1100-line image of 1.1 GB; with rpc=4096 the whole image is ONE request of more than 2^30 bytes; six lines before / at / beyond the first GiB of that request are compared with the bytes of the file, for rpc=64 and rpc=4096. Non-trivial: rpc1 != rpc2 and min(rpc1, rpc2) < N."
)
ASSUMPTIONS = ["dask is absent: chunks=None; the advertised chunking is observed through .encoding"]
BUDGET = {"quick": 120, "thorough": 1500}
JOBS = {"quick": 4, "thorough": 16}


def rpcs_for(lines):
    s = {1, max(1, lines - 1), lines, lines + 1, 2 * lines, 10**6, 2**31}
    for d in range(2, min(lines, 9) + 1):
        s.add(d)
    return sorted(s)


@st.composite
def pair_cases(draw):
    case = draw(common.product_cases(max_lines=14, max_pixels=5))
    lines = case["images"][0]["lines"]
    opts = rpcs_for(lines)
    case["rpc1"] = draw(st.sampled_from(opts))
    case["rpc2"] = draw(st.sampled_from(opts))
    case["fs"] = draw(st.sampled_from(["memory", "local"]))
    # both opens may be served from index caches in some state: complete in the user dir /
    # written by the tool next to the images / a torn index in the user dir in front of a complete one next to the images
    case["cache_state"] = draw(st.sampled_from([None, None, None, "user", "adjacent", "torn-user+adjacent"]))
    return case


def all_rpc_cases():
    geoms = [("1.1", 5, 3), ("1.5", 12, 4), ("3.1", 7, 2), ("1.1", 1, 4), ("1.5", 2, 1), ("1.5", 9, 3)]
    for level, lines, pixels in geoms:
        for rpc in list(range(1, lines + 3)) + [2 * lines, 10**6, 2**31]:
            yield {
                "level": level,
                "images": [{"lines": lines, "pixels": pixels}, {"lines": max(1, lines - 1), "pixels": pixels}],
                "vseed": lines * 100 + pixels,
                "rpc1": 1,
                "rpc2": rpc,
                "fs": "memory",
                "leader": {"map_projection": level != "1.1"},
            }
    # line numbers that start again half way / trailing lines without a number
    for level, lines, numbering in (("1.5", 9, "restart"), ("1.1", 8, "zeros"), ("1.5", 7, "zeros"), ("1.1", 10, "restart")):
        for rpc in range(1, lines + 2):
            yield {
                "level": level,
                "images": [{"lines": lines, "pixels": 2, "line_numbers": numbering}],
                "vseed": lines + 40,
                "rpc1": 1,
                "rpc2": rpc,
                "fs": "memory",
                "leader": {"map_projection": level != "1.1"},
            }
    # acquisitions that run over midnight UTC (on 31 December: into the next year)
    for level, lines, doy in (("1.1", 8, 365), ("1.5", 6, 59), ("1.1", 6, 366)):
        for rpc in range(1, lines + 2):
            yield {
                "level": level,
                "images": [{"lines": lines, "pixels": 2, "cross_midnight": True}],
                "instant": {"year": 2020 if doy == 366 else 2019, "doy": doy, "ms": 86_398_600, "us": 7},
                "vseed": lines,
                "rpc1": 1,
                "rpc2": rpc,
                "fs": "memory",
                "leader": {"map_projection": level != "1.1"},
            }


def giant_cases():
    """one image whose lines add up to more than 1 GiB: with records_per_chunk >= N the whole
    image is a single request of > 2^30 bytes; selected lines (before and beyond the first GiB
    of that request) must hold the bytes of the file, as they do with small requests"""
    yield {"giant": True, "level": "1.5", "images": [{"lines": 1100, "pixels": 499900}], "vseed": 3,
           "rpcs": [64, 4096], "rows": [0, 5, 1073, 1074, 1080, 1099], "case_timeout_s": 600}


def run_giant(case):
    import numpy as np

    from vf.runner import touch

    spec = common.spec_from(case)
    files, info = product.build_product(spec)
    touch()
    iinfo = info["images"][0]
    raw = files[iinfo["name"]]
    lines, pixels, reclen = iinfo["lines"], iinfo["pixels"], iinfo["reclen"]
    gname = common.group_names(spec)[0]
    out = []
    with harness.Materialised(files, "local") as prod:
        touch()
        for rpc in case["rpcs"]:
            tree, err = harness.guard(harness.open_tree, prod.url, records_per_chunk=rpc, use_cache=False)
            touch()
            if err is not None:
                return [harness.disc("exception", f"open_alos2(rpc={rpc})", "a tree", harness.exc_text(err))]
            da = tree[f"imagery/{gname}"]["data"]
            if tuple(da.shape) != (lines, pixels):
                return [harness.disc("shape", f"/imagery/{gname}#data (rpc={rpc})", (lines, pixels), tuple(da.shape))]
            for row in case["rows"]:
                values, err = harness.guard(lambda: np.asarray(da.isel(rows=row).values))
                touch()
                if err is not None:
                    out.append(harness.disc("exception", f"load of line {row} (rpc={rpc})", "the line", harness.exc_text(err)))
                    break
                want = np.frombuffer(raw, ">u2", pixels, 720 + row * reclen + (reclen - 2 * pixels))
                if values.shape != want.shape or not bool((values == want).all()):
                    bad = int((values != want).sum()) if values.shape == want.shape else -1
                    out.append(harness.disc("rpc-dependence", f"/imagery/{gname}#data line {row} (rpc={rpc}; one request of {min(rpc, lines) * reclen} bytes)",
                                            "the samples stored in the file (as returned with small requests)", f"{bad} of {pixels} samples differ"))
                    break
    return out


def plan(tier):
    n = 240 if tier == "quick" else 20000
    return [
        {"kind": "enum", "name": "giant-chunk", "cases": giant_cases, "exhaustive": False},
        {"kind": "enum", "name": "all-rpc", "cases": all_rpc_cases, "exhaustive": True},
        {"kind": "hyp", "name": "pairs", "strategy": pair_cases(), "examples": n},
    ]


def classify(case):
    if case.get("giant"):
        return True, [f"level={case['level']}", "images=1", "request>2^30 bytes"]
    n = case["images"][0]["lines"]
    a, b = case["rpc1"], case["rpc2"]
    nontrivial = a != b and min(a, b) < n
    labels = [f"level={case['level']}", f"images={len(case['images'])}"]
    for r in (a, b):
        if r < n:
            labels.append("rpc<N" + ("" if n % r == 0 else "(non-divisor)"))
        elif r == n:
            labels.append("rpc=N")
        else:
            labels.append("rpc>N")
    return nontrivial, labels


def is_image_data(key):
    return key.startswith("/imagery/") and key.endswith("#data")


def check_chunks(flat, spec, rpc, out, tag):
    for im, gname in zip(spec["images"], common.group_names(spec)):
        key = f"/imagery/{gname}#data"
        leaf = flat.get(key)
        if leaf is None:
            out.append(harness.disc("leaf-missing", key, "image variable", None, which=tag))
            continue
        want = {"preferred_chunksizes": {"rows": min(rpc, im["lines"]), "columns": im["pixels"]}}
        if leaf.encoding != want:
            out.append(harness.disc("preferred-chunks", key, want, leaf.encoding, rpc=rpc))


def reload_checks(tree, flat, spec, tag, rpc):
    """the same opened tree is read again in pieces and then completely: what is read must not
    depend on the request size nor on what was read before (pixels of the first full load are the
    reference)"""
    import numpy as np

    out = []
    for gname in common.group_names(spec):
        key = f"/imagery/{gname}#data"
        leaf = flat.get(key)
        if leaf is None or leaf.values is None:
            continue
        var = tree[f"imagery/{gname}"]["data"]
        n = leaf.values.shape[0]
        for what, sel in (("rows 1..", slice(1, None)), ("every 3rd row from 2", slice(2, None, 3)), ("all rows again", slice(None))):
            got, err = harness.guard(lambda v=var, s=sel: np.asarray(v.isel(rows=s).values))
            if err is not None:
                out.append(harness.disc("exception", f"{key} {what}", "values", harness.exc_text(err), rpc=rpc, which=tag))
                break
            if not harness.array_bytes_equal(got, leaf.values[sel]):
                out.append(harness.disc("rpc-dependence", f"{key} {what} (after earlier loads of the same tree)", "the pixels of the first full load", "different pixels", rpc=rpc, which=tag, lines=n))
                break
    return out


def run_case(case):
    if case.get("giant"):
        return run_giant(case)
    spec = common.spec_from(case)
    files, info = product.build_product(spec)
    out = []
    state = case.get("cache_state")
    with harness.Materialised(files, "local" if state else case.get("fs", "memory")) as prod:
        if state:
            from vf.props import c07

            images = info["names"]["sar_imagery"]
            if state == "user":
                _, err = harness.guard(harness.open_tree, prod.url, use_cache=False, create_cache=True, records_per_chunk=3)
                if err is not None:
                    return [harness.disc("exception", "open_alos2(create_cache=True)", "a tree", harness.exc_text(err))]
            else:
                for image in images:
                    code, stderr = c07.run_cli(["--rpc", "5", str(prod.dir / image)])
                    if code != 0:
                        return [harness.disc("exception", "ceos-alos2-create-cache", "exit 0", stderr[:160])]
                    if state == "torn-user+adjacent":
                        p = c07.user_index_path(prod.url, image)
                        p.parent.mkdir(parents=True, exist_ok=True)
                        raw = (prod.dir / f"{image}.index").read_bytes()
                        p.write_bytes(raw[: len(raw) // 2])
        try:
            return out + compare_rpcs(case, spec, prod, bool(state))
        finally:
            if state:
                common.drop_user_cache(prod.url, info["names"]["sar_imagery"])


def compare_rpcs(case, spec, prod, use_cache):
    out = []
    if True:
        flats = []
        for tag in ("rpc1", "rpc2"):
            options = {"records_per_chunk": case[tag], "use_cache": use_cache}
            if (case["rpc1"] + case["rpc2"] + case.get("vseed", 0)) % 2:
                # "build the options once, call often": the judged open is the second one that is
                # handed this very dict object
                import ceos_alos2

                harness.guard(ceos_alos2.open_alos2, prod.url, backend_options=options)
                tree, err = harness.guard(ceos_alos2.open_alos2, prod.url, backend_options=options)
            else:
                tree, err = harness.guard(harness.open_tree, prod.url, **options)
            if err is not None:
                return [harness.disc("exception", f"open_alos2({tag}={case[tag]})", "a tree", harness.exc_text(err))]
            flat, err = harness.guard(harness.flatten, tree)
            if err is not None:
                return [harness.disc("exception", f"flatten({tag})", "loadable tree", harness.exc_text(err))]
            check_chunks(flat, spec, case[tag], out, tag)
            flats.append(flat)
            out.extend(reload_checks(tree, flat, spec, tag, case[tag]))
        out.extend(harness.diff_flat(flats[0], flats[1], ignore_encoding=is_image_data, kind="rpc-dependence"))
    return out


LEVEL_TEXT = (
    "Metamorphic testing over generated products and pairs of records_per_chunk: complete trees "
    "are compared leaf by leaf; exhaustive over rpc 1..N+2 for six small products, sampled for "
    "generated products and the large rpc values."
)
LEVEL_NOTE = "Trusted: the tree flattener of the harness (loads every variable); independent encoder for the inputs."
TECHNIQUE = "metamorphic relation tree(rpc1) == tree(rpc2) over Hypothesis-generated products + exhaustive small rpc sweep + one >1 GiB request against the file bytes"
