"""C16 Volume-directory fields surface unchanged as root attributes."""

from hypothesis import strategies as st

from vf import harness
from vf.ceosgen import model, product
from vf.props import common

ID = "C16"
LEVEL = "exploration"
RULE = (
    "Hypothesis draws 0..12 file-pointer records (filled with decoy text), a creation instant "
    "(all years 2014-2049, leap days, hundredths 00..99), the filler policy and a value seed from "
    "which every text field of the volume descriptor / text record gets printable ASCII of a "
    "generated length 0..width (inner spaces, left/right/both padding). Oracle: model from the "
    "frozen tables: attribute name per field, stripped text, ISO-8601 creation time, ignored "
    "fields absent, plus the reference-document link; equality of the complete root attrs dict "
    "read through open_alos2. Non-trivial: >= 1 file pointer record."
    " Stage 'in-place-pairs': two volume directories at the same root, one after the other, both judged. Three cases in seven inject a transient I/O error (the 1st, 2nd or 3rd read of the volume directory file fails once with OSError): the open may fail with that OSError, but a tree that is returned - then, and by the next open - carries exactly the fields of the file. Half of the other cases judge the tree returned by an open that writes the image index cache, or a tree served from that cache; half run under xarray's process-wide option keep_attrs=False / True."
)
ASSUMPTIONS = [
    "layout/volume_directory.json + layout/exposure_volume.json (frozen) are the reference",
    "creation time compared as an instant parsed from the ISO string (format details not asserted)",
]
BUDGET = {"quick": 90, "thorough": 1200}
JOBS = {"quick": 4, "thorough": 16}


@st.composite
def cases(draw):
    inst = draw(common.instants())
    return {
        "level": draw(st.sampled_from(["1.1", "1.5"])),
        "images": [{"lines": 1, "pixels": 1}],
        "n_file_pointers": draw(st.integers(0, 12)),
        "instant": inst,
        "hundredths": draw(st.one_of(st.sampled_from([0, 99]), st.integers(0, 99))),
        "policy": draw(st.sampled_from(["decoy", "decoy", "blank"])),
        "vseed": draw(st.integers(0, 2**32 - 1)),
        # bytes after the text record (block padding / a further record)
        "trailing": draw(st.sampled_from([None, None, {"volume": "blank"}, {"volume": "nul"}, {"volume": "text"}, {"volume": "random"}])),
        # the n-th read of the volume directory file fails once with OSError (None: no fault)
        "io_error": draw(st.sampled_from([None, None, None, None, 1, 2, 3])),
        # judged tree: plain uncached open / returned by the open that writes the image index
        # cache / served from that cache (the root attributes come from the volume directory either way)
        "open_mode": draw(st.sampled_from(["plain", "plain", "creating", "cached"])),
        # process-wide xarray option in force while the product is opened (None: xarray's default)
        "xr_keep_attrs": draw(st.sampled_from([None, None, False, True])),
    }


def plan(tier):
    n = 1000 if tier == "quick" else 50000
    return [{"kind": "hyp", "name": "volume-directories", "strategy": cases(), "examples": n},
            {"kind": "hyp", "name": "in-place-pairs", "strategy": common.in_place_pairs(cases()), "examples": max(100, n // 10)}]


def classify(case):
    return case["n_file_pointers"] >= 1, [f"pointers={min(case['n_file_pointers'], 3)}+" if case["n_file_pointers"] >= 3 else f"pointers={case['n_file_pointers']}", f"policy={case['policy']}", f"io_error={case.get('io_error')}", f"open_mode={case.get('open_mode', 'plain')}", f"xr_keep_attrs={case.get('xr_keep_attrs')}"]


def run_case(case):
    spec = common.spec_from(case)
    spec["volume"]["hundredths"] = case["hundredths"]
    files, info = product.build_product(spec)
    if case.get("io_error"):
        # the n-th read of the volume directory file fails once with an I/O error (flaky mount,
        # remote store): the open may fail with that OSError - but a tree that IS returned carries
        # the fields of the file, now and on the next open
        from vf import vtrace

        out = []
        with harness.Materialised(files, "vtrace") as prod:
            vtrace.STORE.fail_path = info["names"]["volume_directory"]
            vtrace.STORE.fail_reads = 1
            vtrace.STORE.fail_skip = case["io_error"] - 1
            try:
                tree, err = harness.guard(harness.open_tree, prod.url, use_cache=False)
            finally:
                consumed = vtrace.STORE.fail_reads == 0
                vtrace.STORE.fail_reads = 0
                vtrace.STORE.fail_skip = 0
                vtrace.STORE.fail_path = None
            if err is not None:
                out.extend(common.judge_fault_error(err, "open_alos2 while a read of the volume directory fails"))
            else:
                flat = {f"/@{k}": v for k, v in tree.attrs.items()}
                for d in model.check_root_attrs(info["volume_leaves"], flat, harness.disc):
                    d.setdefault("context", {})["during"] = "an open in which a read of the volume directory file failed with OSError" if consumed else "an open (no read of the volume directory was seen)"
                    out.append(d)
            tree, err = harness.guard(harness.open_tree, prod.url, use_cache=False)
            if err is not None:
                out.append(harness.disc("exception", "open_alos2 after the transient error", "a tree", harness.exc_text(err)))
            else:
                flat = {f"/@{k}": v for k, v in tree.attrs.items()}
                for d in model.check_root_attrs(info["volume_leaves"], flat, harness.disc):
                    d.setdefault("context", {})["during"] = "the open after the transient error"
                    out.append(d)
        return out
    mode = case.get("open_mode", "plain")
    import contextlib

    import xarray as xr

    ambient = xr.set_options(keep_attrs=case["xr_keep_attrs"]) if case.get("xr_keep_attrs") is not None else contextlib.nullcontext()
    with ambient, common.open_in_mode(files, info["names"]["sar_imagery"], mode) as (tree, err):
        if err is not None:
            return [harness.disc("exception", f"open_alos2 ({mode})", "a tree", harness.exc_text(err))]
        flat = {f"/@{k}": v for k, v in tree.attrs.items()}
    out = model.check_root_attrs(info["volume_leaves"], flat, harness.disc)
    for d in out:
        d.setdefault("context", {})["open_mode"] = mode
    return out


LEVEL_TEXT = (
    "Model-based testing of the root attributes over generated volume directory files (every "
    "text field at every fill length, 0..12 pointer records, all valid creation stamps)."
)
LEVEL_NOTE = "Trusted base: frozen layout/exposure tables for the volume directory."
TECHNIQUE = "Hypothesis-generated volume directories via independent encoder; reference-model oracle on the full root attrs dict; injected transient read faults"
