"""C12 Well-typed tree: declared shape/dtype match loaded data, no opaque objects."""

import numpy as np
from hypothesis import strategies as st

from vf import harness
from vf.ceosgen import product
from vf.props import common

ID = "C12"
LEVEL = "exploration"
RULE = (
    "Hypothesis draws whole products of all levels (1-3 images, every leader / line / header "
    "field from a value seed, optional header fields independently blank, spare areas blank or "
    "decoy-filled) plus up to 3 selections per image. Oracle (validity predicate on every node): "
    "dtype is an np.dtype of kind b/i/u/f/c/M/m/U/T; shape is a tuple; loaded values have that "
    "shape and dtype (up to byte order); every attribute is bool/int/float/str or nested "
    "list/tuple of those; repr(tree), _repr_html_() and nbytes of each node do not raise; for "
    "selections sel.shape == sel.values.shape. Non-trivial: level 1.1 or >=1 blank header field."
    " Half of the products carry free-text summary entries that are left empty, a quarter a summary section the reader has no table for. Opens served from the cache are also given their request size as a byte budget text ('auto', '1kB', '64MiB', '100 B'), which the array class understands on that path (an open that rejects the text is not judged)."
)
ASSUMPTIONS = ["NumPy scalar attribute values are accepted as plain scalars"]
NOTES = __import__("collections").Counter()
BUDGET = {"quick": 120, "thorough": 1500}
JOBS = {"quick": 4, "thorough": 16}

OK_KINDS = set("biufcMmUT")
SCALARS = (bool, int, float, str, np.bool_, np.integer, np.floating, np.str_)


@st.composite
def cases(draw):
    case = draw(common.product_cases(max_lines=8, max_pixels=5))
    case["rpc"] = draw(st.sampled_from([1, 2, 3, 1024]))
    sels = []
    for _ in range(draw(st.integers(0, 3))):
        sels.append(
            {
                "rows": draw(st.one_of(st.integers(-1, 0), st.just("all"), st.just("empty"), st.just("rev"))),
                "columns": draw(st.one_of(st.integers(-1, 0), st.just("all"), st.just("list"))),
            }
        )
    case["selections"] = sels
    # free-text summary entries left empty (the typed ones - ints, floats, ids - must be filled)
    case["summary_blank"] = draw(st.one_of(st.none(), st.integers(0, 10**6)))
    case["via_cache"] = draw(st.sampled_from([False, False, True]))
    # the open served from the cache may be given its request size as a byte budget (a text the
    # array class understands on that path); an open that rejects the text is not judged
    case["rpc_text"] = draw(st.sampled_from([None, None, "auto", "1kB", "64MiB", "100 B"]))
    # flag / code columns that are usually constant over a file change from line to line
    if draw(st.integers(0, 3)) == 0:
        for im in case["images"]:
            im["vary_constants"] = True
    return case


def plan(tier):
    n = 360 if tier == "quick" else 16000
    return [{"kind": "hyp", "name": "products", "strategy": cases(), "examples": n}]


def classify(case):
    blank = any(im.get("blank_header") for im in case["images"])
    labels = [f"level={case['level']}", f"policy={case['policy']}"]
    if blank:
        labels.append("blank-header")
    if case["selections"]:
        labels.append("selections")
    if case.get("summary_blank") is not None:
        labels.append("empty-summary-values")
    if case.get("via_cache"):
        labels.append("via-cache")
        if case.get("rpc_text"):
            labels.append("via-cache:text-request-size")
    if any(im.get("vary_constants") for im in case["images"]):
        labels.append("varying-flag-columns")
    return case["level"] == "1.1" or blank, labels


def plain(value, depth=0):
    if isinstance(value, SCALARS):
        return True
    if isinstance(value, (list, tuple)) and depth < 8:
        return all(plain(v, depth + 1) for v in value)
    if isinstance(value, np.ndarray) and value.dtype.kind in OK_KINDS:
        return True
    return False


def to_sel(s, n):
    if s == "all":
        return slice(None)
    if s == "empty":
        return slice(0, 0)
    if s == "rev":
        return slice(None, None, -1)
    if s == "list":
        return [0, n - 1]
    return s


def check_nodes(tree):
    """the well-typedness predicate over every node of one tree"""
    out = []
    for node in tree.subtree:
        path = node.path
        ds = node.to_dataset(inherit=False)
        for k, v in ds.attrs.items():
            if not plain(v):
                out.append(harness.disc("opaque-attribute", f"{path}@{k}", "plain scalar/list", f"{type(v).__name__}: {v!r}"[:120]))
        for name, var in ds.variables.items():
            where = f"{path}#{name}"
            for k, v in var.attrs.items():
                if not plain(v):
                    out.append(harness.disc("opaque-attribute", f"{where}@{k}", "plain", f"{type(v).__name__}: {v!r}"[:120]))
            dtype = var.dtype
            if not isinstance(dtype, np.dtype):
                out.append(harness.disc("dtype-not-numpy", where, "np.dtype instance", f"{type(dtype).__name__} {dtype!r}"))
            elif dtype.kind not in OK_KINDS:
                out.append(harness.disc("dtype-opaque", where, "kind in biufcMmUT", f"{dtype} (kind {dtype.kind})"))
            if not isinstance(var.shape, tuple):
                out.append(harness.disc("shape-not-tuple", where, "tuple", f"{type(var.shape).__name__} {var.shape!r}"))
            values, err = harness.guard(lambda v=var: np.asarray(v.values))
            if err is not None:
                out.append(harness.disc("exception", where + ".values", "values", harness.exc_text(err)))
                continue
            if tuple(values.shape) != tuple(var.shape):
                out.append(harness.disc("shape-mismatch", where, tuple(var.shape), values.shape))
            if isinstance(dtype, np.dtype) and values.dtype.newbyteorder("=") != dtype.newbyteorder("="):
                out.append(harness.disc("dtype-mismatch", where, dtype, values.dtype))
        _, err = harness.guard(lambda d=ds: d.nbytes)
        if err is not None:
            out.append(harness.disc("nbytes-raises", path, "a size", harness.exc_text(err)))
    return out

BLANKABLE = {("Odi", "SiteDateTime"), ("Pds", "MapDirection"), ("Pds", "OrbitDataPrecision"), ("Pds", "AttitudeDataPrecision"),
             ("Pdi", "ProductFormat"), ("Ach", "TimeCheck"), ("Rad", "PracticeResultCode"), ("Lbi", "Satellite"), ("Lbi", "ObservationDate")}


def run_case(case):
    spec = common.spec_from(case)
    if case.get("summary_blank") is not None:
        import random

        rng = random.Random(case["summary_blank"])
        names = product.file_names(spec["scene_id"], spec["product_id"], spec["images"])
        entries = product.default_summary_entries(spec, names)
        entries = [(s, k, "" if (s, k) in BLANKABLE and rng.random() < 0.5 else v) for s, k, v in entries]
        entries += [("Odi", "Remark", ""), ("Lbi", "Comment", rng.choice(["", " ", "x"]))]
        if rng.random() < 0.5:
            # a section the reader has no table for (a later format revision): whatever it does
            # with it, no internal mapping may surface in the tree
            entries += [("Brs", "BrowseImageName", "BRS-HH.jpg"), ("Brs", "CntOfBrowse", "1")]
        if rng.random() < 0.5:
            # extra keywords in the sections whose ids are decoded into parts, named like such a
            # part (round 14, C12n): whichever of the two wins, it must be a plain value
            extra = [("Scs", rng.choice(["mission_name", "orbit_accumulation", "scene_frame", "date"]), rng.choice(["ALOS2", "7", "x y"]))]
            if rng.random() < 0.5:
                extra.append(("Pds", rng.choice(["observation_mode", "processing_level", "orbit_direction"]), rng.choice(["1.5", "0", "-2e3"])))
            for e in extra:
                entries.insert(rng.randrange(len(entries) + 1), e)
        spec["summary_entries"] = entries
    files, info = product.build_product(spec)
    out = []
    via_cache = bool(case.get("via_cache"))
    with harness.Materialised(files, "local" if via_cache else "memory") as prod:
        if via_cache:
            # the tree assembled from index caches (written by a first open) is held to the same predicate
            creating, err = harness.guard(harness.open_tree, prod.url, records_per_chunk=1024, use_cache=False, create_cache=True)
            tree, err2 = harness.guard(harness.open_tree, prod.url, records_per_chunk=case.get("rpc_text") or case["rpc"], use_cache=True)
            if err is None and err2 is not None and case.get("rpc_text") and isinstance(err2, (TypeError, ValueError)):
                NOTES["out-of-domain:text-request-size-rejected"] += 1
                tree, err2 = harness.guard(harness.open_tree, prod.url, records_per_chunk=case["rpc"], use_cache=True)
            err = err or err2
        else:
            tree, err = harness.guard(harness.open_tree, prod.url, records_per_chunk=case["rpc"], use_cache=False)
        if via_cache:
            common.drop_user_cache(prod.url, info["names"]["sar_imagery"])
        if err is not None:
            return [harness.disc("exception", "open_alos2", "a tree", harness.exc_text(err))]
        out.extend(check_nodes(tree))
        if via_cache and creating is not None:
            # the tree returned by the open that wrote the caches is a tree like any other
            for d in check_nodes(creating):
                d.setdefault("context", {})["tree"] = "returned by the cache-creating open"
                out.append(d)
        # re-open for the repr checks (values above may have been cached by xarray)
        tree2, err = harness.guard(harness.open_tree, prod.url, records_per_chunk=case["rpc"], use_cache=False)
        if err is None:
            for what, fn in (("repr", lambda: repr(tree2)), ("_repr_html_", lambda: tree2._repr_html_())):
                _, err = harness.guard(fn)
                if err is not None:
                    out.append(harness.disc(f"{what}-raises", "/", "text", harness.exc_text(err)))
            for im, gname in zip(spec["images"], common.group_names(spec)):
                try:
                    da = tree2[f"imagery/{gname}"]["data"]
                except KeyError:
                    continue
                for sel in case["selections"]:
                    r = to_sel(sel["rows"], im["lines"])
                    c = to_sel(sel["columns"], im["pixels"])
                    picked, err = harness.guard(lambda: da.isel(rows=r, columns=c))
                    if err is not None:
                        continue  # C02's business
                    vals, err = harness.guard(lambda: np.asarray(picked.values))
                    if err is not None:
                        continue
                    if tuple(picked.shape) != tuple(vals.shape):
                        out.append(harness.disc("selection-shape-mismatch", f"/imagery/{gname}#data", tuple(picked.shape), vals.shape, sel=sel))
                    declared = picked.dtype
                    if not isinstance(declared, np.dtype) or vals.dtype.newbyteorder("=") != declared.newbyteorder("="):
                        out.append(harness.disc("selection-dtype-mismatch", f"/imagery/{gname}#data", declared, vals.dtype, sel=sel))
    return out


LEVEL_TEXT = (
    "Validity predicate evaluated on every node, variable and attribute of trees opened from "
    "generated products of all levels (blank and filled optional fields) and on generated selections."
)
LEVEL_NOTE = "Trusted: the predicate's list of admissible dtype kinds / attribute types is the property's own wording."
TECHNIQUE = "Hypothesis-generated products, validity predicate over every node (types, shapes, repr/nbytes)"
