"""C18 Fail-stop: truncated or missing files raise, never yield a wrong tree."""

import functools
import signal

from hypothesis import strategies as st

from vf import harness
from vf.ceosgen import product
from vf.props import common

ID = "C18"
LEVEL = "fault_enumeration"
RULE = (
    "Faults on a level-1.1 and a level-1.5 product (2 images): image truncation at 0, 1, the "
    "descriptor boundary +-1, every line-record boundary +-1, len-1 with all five rpc values, EVERY "
    "byte of the first image with rpc in {1, N+1} and 60 Hypothesis-drawn cuts (quick) or EVERY byte "
    "of both images with all rpc values (thorough), each crossed with records_per_chunk in {1, 2, N, N+1, "
    "1024}; every single missing file of {summary.txt, volume directory, leader, each image}; "
    "leader and volume-directory truncation at every record boundary +-1 and every 64th byte "
    "(quick) or every byte (thorough). Faults are served by the vtrace filesystem and by really "
    "truncated local files; a part of the faults is applied IN PLACE after a successful open (and "
    "full load) of the intact product at the same path in the same process; 'indexed' warm faults: that first open also wrote the index cache of the intact images, and the judged open says use_cache=False (with / without create_cache=True), so the index must not stand in for the damaged file; 'index-of-damaged': an index is first built from the damaged product itself (create_cache=True, or the command line tool - either may fail), then the product is opened with default options. Oracle: open_alos2 raises an Exception (a missing file: an OSError "
    "subclass); if it returns, the complete tree incl. all pixel values must equal the undamaged "
    "reference (so a silently short image is a violation); never a BaseException-only type; each "
    "case runs under a 120 s watchdog. Non-trivial: the cut is strictly inside the file."
)
ASSUMPTIONS = [
    "'promptly' is judged only by a coarse watchdog (120 s for a file of a few KB)",
    "the trailer is never read, so it is not damaged",
]
BUDGET = {"quick": 150, "thorough": 2400}
JOBS = {"quick": 4, "thorough": 16}
LEVELS = ["1.1", "1.5"]
N = 4


@functools.lru_cache(maxsize=None)
def base(level):
    spec = common.spec_from(
        {"level": level, "images": [{"lines": N, "pixels": 3}, {"lines": 3, "pixels": 2}], "vseed": 180 + LEVELS.index(level),
         "leader": {"map_projection": level != "1.1", "n_att": 2}}
    )
    files, info = product.build_product(spec)
    with harness.Materialised(files, "memory") as prod:
        _, ref = harness.reference_open(prod.url, use_cache=False)
    names = info["names"]
    roles = {"summary": "summary.txt", "VOL": names["volume_directory"], "LED": names["sar_leader"]}
    for i, n in enumerate(names["sar_imagery"]):
        roles[f"IMG{i}"] = n
    reclens = {f"IMG{i}": ii["reclen"] for i, ii in enumerate(info["images"])}
    return files, roles, ref, reclens


def leader_boundaries(level):
    files, roles, _, _ = base(level)
    n = len(files[roles["LED"]])
    sizes = [720, 4096] + ([1620] if level != "1.1" else []) + [4680, 16384, 9860, 1620, 100, 66, 200, 300, 5000]
    out, pos = set(), 0
    for s in sizes:
        pos += s
        out.update({pos - 1, pos, pos + 1})
    return sorted(k for k in out if 0 <= k < n)


class Watchdog:
    def __init__(self, seconds):
        self.seconds = seconds

    def __enter__(self):
        def handler(signum, frame):
            raise TimeoutError(f"watchdog: no result after {self.seconds} s")

        self.old = signal.signal(signal.SIGALRM, handler)
        signal.alarm(self.seconds)

    def __exit__(self, *exc):
        signal.alarm(0)
        signal.signal(signal.SIGALRM, self.old)
        return False


def run_case(case):
    files, roles, ref, reclens = base(case["level"])
    damaged = dict(files)
    fname = roles[case["file"]]
    if case["fault"] == "missing":
        del damaged[fname]
        what = f"missing {case['file']}"
    else:
        n = len(files[fname])
        cut = case["cut"] % n if case.get("mod") else case["cut"]
        if not (0 <= cut < n):
            raise __import__("vf.runner").runner.OutOfDomain()
        damaged[fname] = files[fname][:cut]
        what = f"{case['file']} truncated"
    opts = {"use_cache": False}
    if case.get("rpc"):
        opts["records_per_chunk"] = case["rpc"]
    out = []
    old_fixed = harness.FIXED_NAME
    if case.get("warm"):
        # the intact product is opened (and loaded) first at the very same path, then damaged in
        # place: whatever the library remembers about the intact file must not hide the damage
        harness.FIXED_NAME = f"warm-{__import__('os').getpid()}-{harness.case_hash(case)[:10]}"
        with harness.Materialised(files, case["fs"]) as intact:
            # ("indexed": that open also leaves an index of the intact images in the user cache
            # dir; the judged opens say use_cache=False, so the index must not stand in for the file)
            tree, err = harness.guard(harness.open_tree, intact.url, **dict(opts, **({"create_cache": True} if case["warm"] == "indexed" else {})))
            if err is None:
                _, err = harness.guard(harness.flatten, tree)
            if err is not None:
                harness.FIXED_NAME = old_fixed
                return [harness.disc("exception", "open of the intact product", "a tree", harness.exc_text(err))]
        what += " after a successful open of the intact product at the same path"
    if case.get("warm") == "index-of-damaged":
        return _index_of_damaged(case, damaged, roles, ref, what)
    try:
        if case.get("warm") == "indexed":
            what += " which also wrote the index cache (judged open: use_cache=False" + (", create_cache=True)" if case.get("refresh") else ")")
            if case.get("refresh"):
                opts["create_cache"] = True
        return _judge_damaged(case, damaged, opts, what, ref, out)
    finally:
        if case.get("warm") == "indexed":
            from vf.props import common

            with harness.Materialised(damaged, case["fs"]) as prod:
                common.drop_user_cache(prod.url, [roles["IMG0"], roles["IMG1"]])
        harness.FIXED_NAME = old_fixed


def _index_of_damaged(case, damaged, roles, ref, what):
    """somebody tries to build the index cache of the product as it is now - damaged - with
    create_cache=True or with the command line tool; that attempt may fail, but whatever it
    leaves behind, the default open that follows must not turn the damage into a shorter image"""
    from vf.props import c07, common

    out = []
    old_fixed = harness.FIXED_NAME
    harness.FIXED_NAME = f"iod-{__import__('os').getpid()}-{harness.case_hash(case)[:10]}"
    images = [roles["IMG0"], roles["IMG1"]]
    try:
        if case.get("builder") != "tool":
            with harness.Materialised(damaged, "local") as prod:
                harness.guard(harness.open_tree, prod.url, use_cache=False, create_cache=True, **({"records_per_chunk": case["rpc"]} if case.get("rpc") else {}))
        what += f" (an index was first built from the damaged product with {'the tool' if case.get('builder') == 'tool' else 'create_cache=True'}; judged open: defaults)"
        # the adjacent index files written by the tool are part of the product directory now
        extra = {}
        opts = {"records_per_chunk": case["rpc"]} if case.get("rpc") else {}
        case2 = dict(case, fs="local")
        if case.get("builder") == "tool":
            # run the tool and the judged open on the same materialisation
            with harness.Materialised(damaged, "local") as prod:
                for image in images:
                    if (prod.dir / image).is_file():
                        c07.run_cli(["--rpc", str(case.get("rpc") or 1024), str(prod.dir / image)])
                for image in images:
                    p = prod.dir / f"{image}.index"
                    if p.is_file():
                        extra[f"{image}.index"] = p.read_bytes()
        return _judge_damaged(case2, dict(damaged, **extra), opts, what, ref, out)
    finally:
        with harness.Materialised(damaged, "local") as prod:
            common.drop_user_cache(prod.url, images)
        harness.FIXED_NAME = old_fixed


def _judge_damaged(case, damaged, opts, what, ref, out):
    with harness.Materialised(damaged, case["fs"]) as prod:
        try:
            with Watchdog(120):
                try:
                    tree = harness.open_tree(prod.url, **opts)
                    err = None
                except Exception as e:  # noqa: BLE001 - the expected outcome
                    tree, err = None, e
                if err is None:
                    flat, ferr = harness.guard(harness.flatten, tree)
        except TimeoutError as e:
            return [harness.disc("did-not-terminate", what, "an exception, promptly", str(e))]
        except BaseException as e:  # noqa: BLE001 - e.g. SystemExit / KeyboardInterrupt from the library
            if isinstance(e, (KeyboardInterrupt,)):
                raise
            return [harness.disc("base-exception", what, "an Exception subclass", f"{type(e).__name__}: {e}")]
    if err is not None:
        if case["fault"] == "missing" and not isinstance(err, OSError):
            out.append(harness.disc("missing-file-not-oserror", what, "OSError / FileNotFoundError", harness.exc_text(err)))
        return out
    # it returned: it must be the right tree, completely loadable
    if ferr is not None:
        return [harness.disc("returned-unloadable-tree", what, "an exception at open time", harness.exc_text(ferr))]
    diffs = harness.diff_flat(ref, flat, kind="wrong-tree-from-damaged-product")
    for d in diffs[:3]:
        d["where"] = what
        out.append(d)
    if not diffs and case["fault"] == "missing":
        out.append(harness.disc("missing-file-ignored", what, "OSError", "a tree"))
    if not diffs and case["fault"] == "truncate":
        # the statement is "raises", not "raises or happens to return the right tree": a file
        # that is shorter than its records declare was accepted
        out.append(harness.disc("truncation-not-detected", what, "an exception", "a tree (equal to the undamaged one)"))
    for d in out:
        d.setdefault("context", {}).update({k: case[k] for k in ("cut", "rpc", "fs") if k in case})
    return out


def enum_cases(tier):
    rpcs = [1, 2, N, N + 1, 1024]
    for level in LEVELS:
        files, roles, ref, reclens = base(level)
        for role in roles:
            for fs in ("vtrace", "local"):
                yield {"level": level, "fault": "missing", "file": role, "fs": fs}
                yield {"level": level, "fault": "missing", "file": role, "fs": fs, "warm": True}
            if role.startswith("IMG"):
                for refresh in (False, True):
                    yield {"level": level, "fault": "missing", "file": role, "fs": "local", "warm": "indexed", "refresh": refresh}
        for role in ("IMG0", "IMG1"):
            n = len(files[roles[role]])
            if tier == "quick":
                cuts = {0, 1, 719, 720, 721, n - 1}
                for i in range(1, (n - 720) // reclens[role] + 1):
                    b = 720 + i * reclens[role]
                    cuts.update({b - 1, b, b + 1})
                boundary = set(c for c in cuts if 0 <= c < n)
                cuts = range(n) if role == "IMG0" else sorted(boundary)
            else:
                boundary = set()
                cuts = range(n)
            for cut in cuts:
                for j, rpc in enumerate(rpcs):
                    if tier == "quick" and role == "IMG1" and rpc not in (1, 1024):
                        continue
                    if tier == "quick" and role == "IMG0" and cut not in boundary and rpc not in (1, N + 1):
                        continue
                    yield {"level": level, "fault": "truncate", "file": role, "cut": cut, "rpc": rpc, "fs": "vtrace" if (cut + j) % 2 else "local"}
                    if (cut in boundary and rpc in (1, 1024)) or (tier != "quick" and cut % 3 == j % 3):
                        yield {"level": level, "fault": "truncate", "file": role, "cut": cut, "rpc": rpc, "fs": "local" if (cut + j) % 2 else "vtrace", "warm": True}
                    if (cut in boundary and rpc == 1024) or (tier != "quick" and cut % 5 == j):
                        yield {"level": level, "fault": "truncate", "file": role, "cut": cut, "rpc": rpc, "fs": "local", "warm": "indexed", "refresh": bool((cut + j) % 2)}
                    if (cut in boundary and rpc in (1, 1024)) or (tier != "quick" and cut % 7 == j):
                        yield {"level": level, "fault": "truncate", "file": role, "cut": cut, "rpc": rpc, "fs": "local", "warm": "index-of-damaged", "builder": ["option", "tool"][(cut + j) % 2]}
        for role in ("LED", "VOL"):
            n = len(files[roles[role]])
            if tier == "quick":
                cuts = set(range(0, n, 64)) | {1, n - 1}
                if role == "LED":
                    cuts |= set(leader_boundaries(level))
                else:
                    cuts |= {k for b in range(360, n + 1, 360) for k in (b - 1, b, b + 1) if k < n}
            else:
                cuts = range(n) if role == "VOL" else set(range(0, n, 7)) | set(leader_boundaries(level))
            for cut in sorted(cuts):
                yield {"level": level, "fault": "truncate", "file": role, "cut": cut, "fs": "vtrace" if cut % 2 else "local"}
                if cut % 5 == 0:
                    yield {"level": level, "fault": "truncate", "file": role, "cut": cut, "fs": "local" if cut % 2 else "vtrace", "warm": True}


@st.composite
def random_cuts(draw):
    warm = draw(st.sampled_from([False, True, "indexed"]))
    extra = {"refresh": draw(st.booleans())} if warm == "indexed" else {}
    return dict(extra, **{
        "level": draw(st.sampled_from(LEVELS)),
        "fault": "truncate",
        "file": draw(st.sampled_from(["IMG0", "IMG0", "IMG1", "LED", "VOL"])),
        "cut": draw(st.integers(0, 60000)),
        "mod": True,
        "rpc": draw(st.sampled_from([1, 2, 3, N, N + 1, 1024])),
        "fs": "local" if warm == "indexed" else draw(st.sampled_from(["vtrace", "local"])),
        "warm": warm,
    })


def plan(tier):
    return [
        {"kind": "enum", "name": "faults", "cases": lambda: enum_cases(tier), "exhaustive": True},
        {"kind": "hyp", "name": "random-cuts", "strategy": random_cuts(), "examples": 60 if tier == "quick" else 4000},
    ]


def classify(case):
    labels = [f"fault={case['fault']}", f"file={case['file'][:3]}", f"fs={case['fs']}", f"level={case['level']}"]
    if case.get("warm"):
        labels.append("index-built-from-damaged-product" if case["warm"] == "index-of-damaged" else "after-intact-open" + ("+index" if case["warm"] == "indexed" else ""))
    if case["fault"] == "missing":
        return True, labels
    return case.get("mod") or case["cut"] > 0, labels


LEVEL_TEXT = (
    "Fault enumeration: truncation points of every component file (all record boundaries +-1 in "
    "quick, every byte of the images and the volume directory in thorough) crossed with "
    "records_per_chunk, and every single missing file, on two filesystems; fail-stop predicate."
)
LEVEL_NOTE = "Trusted: the undamaged reference tree; the watchdog is coarse."
TECHNIQUE = "fault enumeration (truncation points x rpc, missing files) on local and instrumented filesystems; fail-stop / wrong-tree oracle"
