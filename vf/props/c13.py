"""C13 Tree assembly: one correctly named group per image, none dropped or swapped."""

import random

import numpy as np
from hypothesis import strategies as st

from vf import harness
from vf.ceosgen import model, product
from vf.props import c01, c04, c07, common

ID = "C13"
LEVEL = "exploration"
RULE = (
    "Hypothesis draws products with 1..8 images over distinct (polarisation, scan) pairs (one "
    "processing-method letter per product; non-ScanSAR products use the 4 polarisations), in any "
    "image order, with / without map-projection record, summary lines shuffled or not, opened directly or (one third of the cases) re-opened from index caches written by a first open - all of them, or a generated per-image layout (user cache dir / next to the image / no index, so cache hits and misses interleave); every "
    "image has its own geometry, pixels and per-line metadata (from the value seed). Oracle: root "
    "children exactly {summary, metadata, imagery}; /imagery children == the expected names in "
    "summary (key) order; each group's pixels (bit-exact) and line metadata (full model) are "
    "those of its own file; /metadata children == the records present; root attrs == volume "
    "attrs + reference link; every per-line variable is a coordinate and no 'coordinates' "
    "attribute is left anywhere. Non-trivial: >= 2 images."
    " Stage 'in-place-pairs': two products with the same file names at the same root, one after the other, both judged. In via-cache cases the tree returned by the open that wrote the caches is judged as well as the tree read back. A quarter of the other cases inject a transient I/O error into the open (the 1st..3rd read of the summary, volume directory, leader, trailer or one image fails once with OSError): the open may fail, but a tree that is returned is the complete tree."
)
ASSUMPTIONS = ["frozen layout / exposure tables; image order = numeric order of the ProductFileName keys"]
BUDGET = {"quick": 120, "thorough": 1500}
JOBS = {"quick": 4, "thorough": 16}


@st.composite
def cases(draw):
    level = draw(st.sampled_from(["1.1", "1.5", "3.1"]))
    scansar = draw(st.booleans())
    if scansar:
        letter = draw(st.sampled_from(["B", "F"]))
        combos = [(p, f"{letter}{n}") for n in range(0, 10) for p in common.POLS]
    else:
        combos = [(p, None) for p in common.POLS]
    n = draw(st.integers(1, min(8, len(combos))))
    picked = draw(st.permutations(combos))[:n]
    return {
        "level": level,
        "images": [{"pol": p, "scan": s, "lines": draw(st.integers(1, 5)), "pixels": draw(st.integers(1, 4))} for p, s in picked],
        "leader": {"map_projection": draw(st.booleans()), "designator": draw(st.sampled_from(product.DESIGNATORS))},
        "shuffle_summary": draw(st.one_of(st.none(), st.integers(0, 10**6))),
        "rpc": draw(st.sampled_from([1, 2, 1024])),
        # the tree assembled from index caches (written by a first open) must be the same tree
        "via_cache": draw(st.sampled_from([False, False, True])),
        # which images still have their index at the judged open, and where: per image one of
        # user cache dir / next to the image / none (None = all in the user cache dir)
        "cache_layout": draw(st.one_of(st.none(), st.integers(0, 10**6))),
        "vseed": draw(st.integers(0, 2**32 - 1)),
        # a transient I/O error: the n-th read of one component file fails once with OSError
        # (file chosen by index into [summary, VOL, LED, TRL, images...]); None = no fault
        "io_error": draw(st.one_of(st.none(), st.none(), st.none(), st.tuples(st.sampled_from([0, 1, 1, 2, 2, 3, 4, 5, 6, 7]), st.sampled_from([1, 1, 2, 3])))),
    }


def plan(tier):
    n = 320 if tier == "quick" else 10000
    return [{"kind": "hyp", "name": "products", "strategy": cases(), "examples": n},
            {"kind": "hyp", "name": "in-place-pairs", "strategy": common.in_place_pairs(cases()), "examples": max(40, n // 16)}]


def classify(case):
    n = len(case["images"])
    labels = [f"images={n}", f"level={case['level']}", f"map={int(case['leader']['map_projection'])}"]
    if case["images"][0]["scan"]:
        labels.append("scansar")
    if case["shuffle_summary"] is not None:
        labels.append("shuffled-summary")
    if case.get("via_cache"):
        labels.append("via-cache" if case.get("cache_layout") is None else "via-partial-cache")
    elif case.get("io_error"):
        labels.append("transient-read-error")
    return n >= 2, labels


def judge_flat(flat, spec, info):
    out = []
    if flat.get("//") != ["summary", "metadata", "imagery"] and sorted(flat.get("//", [])) != ["imagery", "metadata", "summary"]:
        out.append(harness.disc("root-children", "/", ["summary", "metadata", "imagery"], flat.get("//")))
    want_names = common.group_names(spec)
    if flat.get("/imagery/") != want_names:
        out.append(harness.disc("imagery-children", "/imagery", want_names, flat.get("/imagery/")))
    records = ["dataset_summary", "map_projection", "platform_position", "attitude", "radiometric_data", "data_quality_summary", "transformations"]
    if not spec["leader"]["map_projection"]:
        records.remove("map_projection")
    if sorted(flat.get("/metadata/", [])) != sorted(records):
        out.append(harness.disc("metadata-children", "/metadata", records, flat.get("/metadata/")))
    # each image group holds the pixels and the line metadata of its own file
    for iinfo, gname in zip(info["images"], want_names):
        key = f"/imagery/{gname}#data"
        leaf = flat.get(key)
        if leaf is None or leaf.values is None:
            out.append(harness.disc("leaf-missing", key, "image variable", leaf))
            continue
        if tuple(leaf.shape) != (iinfo["lines"], iinfo["pixels"]):
            out.append(harness.disc("swapped-or-wrong-image", key, (iinfo["lines"], iinfo["pixels"]), leaf.shape))
            continue
        exp = c01.expected_words(iinfo)
        obs = c01.observed_words(leaf.values, iinfo["type_code"])
        if not np.array_equal(exp, obs):
            out.append(harness.disc("swapped-or-wrong-image", key, "pixels of its own file", "other pixels"))
        if leaf.is_coord:
            out.append(harness.disc("data-is-coordinate", key, "data variable", "coordinate"))
        out.extend(model.check_image_group(iinfo, gname, flat, harness.disc))
    out.extend(model.check_root_attrs(info["volume_leaves"], {k: v for k, v in flat.items() if k.startswith("/@")}, harness.disc))
    out.extend(c04.check_leader(info, spec, flat))
    for key in flat:
        if key.endswith("@coordinates"):
            out.append(harness.disc("bookkeeping-attribute-left", key, "removed", flat[key]))
    return out


def run_io_error(case, spec, files, info):
    """one read of one component file fails once with OSError: the open may fail,
    but a tree that is returned is the complete tree of the product (nothing silently left out)"""
    from vf import vtrace

    names = info["names"]
    candidates = ["summary.txt", names["volume_directory"], names["sar_leader"], names.get("sar_trailer")] + list(names["sar_imagery"])
    candidates = [c for c in candidates if c]
    which, nth = case["io_error"]
    target = candidates[which] if which < 4 else candidates[4 + (which - 4) % (len(candidates) - 4)]
    out = []
    with harness.Materialised(files, "vtrace") as prod:
        vtrace.STORE.fail_path, vtrace.STORE.fail_reads, vtrace.STORE.fail_skip = target, 1, nth - 1
        try:
            tree, err = harness.guard(harness.open_tree, prod.url, use_cache=False, records_per_chunk=case["rpc"])
        finally:
            # the fault belongs to the open: the loads that follow read undisturbed
            consumed = vtrace.STORE.fail_reads == 0
            vtrace.STORE.fail_path, vtrace.STORE.fail_reads, vtrace.STORE.fail_skip = None, 0, 0
        flat = None
        if err is None:
            flat, err = harness.guard(harness.flatten, tree)
        if err is not None:
            return common.judge_fault_error(err, f"open_alos2 while a read of {target.split('-')[0]} fails")
        for d in judge_flat(flat, spec, info):
            d.setdefault("context", {})["during"] = f"an open in which a read of {target.split('-')[0]} " + ("failed with OSError" if consumed else "was to fail (no such read happened)")
            out.append(d)
    return out


def run_case(case):
    spec = common.spec_from(case)
    if case["shuffle_summary"] is not None:
        names = product.file_names(spec["scene_id"], spec["product_id"], spec["images"])
        entries = product.default_summary_entries(spec, names)
        random.Random(case["shuffle_summary"]).shuffle(entries)
        spec["summary_entries"] = entries
    files, info = product.build_product(spec)
    out = []
    via_cache = case.get("via_cache", False)
    creating_flat = None
    if case.get("io_error") and not via_cache:
        return run_io_error(case, spec, files, info)
    with harness.Materialised(files, "local" if via_cache else "memory") as prod:
        try:
            if via_cache:
                creating, err = harness.guard(harness.open_tree, prod.url, create_cache=True, use_cache=False, records_per_chunk=1024)
                if err is not None:
                    return [harness.disc("exception", "open_alos2(create_cache=True)", "a tree", harness.exc_text(err))]
                creating_flat, err = harness.guard(harness.flatten, creating)
                if err is not None:
                    return [harness.disc("exception", "flatten (cache-creating open)", "loadable tree", harness.exc_text(err))]
                if case.get("cache_layout") is not None:
                    rng = random.Random(case["cache_layout"])
                    missing = [name for name in info["names"]["sar_imagery"] if not c07.user_index_path(prod.url, name).is_file()]
                    if missing:
                        return [harness.disc("cache-not-written", missing[0] + ".index", "one index file per image in the user cache dir after create_cache=True", "missing")]
                    for name in info["names"]["sar_imagery"]:
                        where = rng.choice(["user", "adjacent", "none"])
                        p = c07.user_index_path(prod.url, name)
                        if where == "adjacent":
                            (prod.dir / f"{name}.index").write_text(p.read_text())
                        if where != "user":
                            p.unlink()
                tree, err = harness.guard(harness.open_tree, prod.url, records_per_chunk=case["rpc"])
            else:
                tree, err = harness.guard(harness.open_tree, prod.url, use_cache=False, records_per_chunk=case["rpc"])
            if err is not None:
                return [harness.disc("exception", "open_alos2", "a tree", harness.exc_text(err))]
            flat, err = harness.guard(harness.flatten, tree)
            if err is not None:
                return [harness.disc("exception", "flatten", "loadable tree", harness.exc_text(err))]
        finally:
            if via_cache:
                for name in info["names"]["sar_imagery"]:
                    p = c07.user_index_path(prod.url, name)
                    p.unlink(missing_ok=True)
                    if p.parent.exists() and not any(p.parent.iterdir()):
                        p.parent.rmdir()
    out.extend(judge_flat(flat, spec, info))
    if creating_flat is not None:
        # the tree returned by the open that wrote the caches is held to the same model
        for d in judge_flat(creating_flat, spec, info):
            d.setdefault("context", {})["tree"] = "returned by the cache-creating open"
            out.append(d)
    return out


LEVEL_TEXT = (
    "Model-based testing of the whole tree over generated multi-image products: names, order, "
    "per-image fingerprints (pixels + full line-metadata model), record groups and root attrs."
)
LEVEL_NOTE = "Trusted: frozen layout/exposure tables; C01/C03/C04/C16 oracles reused per node."
TECHNIQUE = "Hypothesis-generated multi-image products; reference-model oracle on tree shape with per-image fingerprints; injected transient read faults"
