"""C17 All timestamps follow one calendar convention and keep their stored resolution."""

import datetime as dt

import numpy as np
from hypothesis import strategies as st

from vf import harness
from vf.ceosgen import model, product
from vf.props import common

ID = "C17"
LEVEL = "exploration"
RULE = (
    "Hypothesis draws an instant 2014-2049 (biased to day-of-year 1, 59, 60, 365, 366 and times "
    "00:00:00.000 / 23:59:59.999(999)) and the number of decimals of the seconds text; the SAME "
    "instant is written into every time-bearing field of one product: first line record (year / "
    "day-of-year / ms and us-of-day), attitude point 0 (day-of-year + ms), platform-position first "
    "point (date text + decimal seconds), scene-centre text, volume creation text (hundredths), "
    "summary date-time. Oracle: every observation point equals the instant truncated to that "
    "field's stored resolution (so they are mutually equal at the coarsest common resolution). "
    "Non-trivial: leap year or boundary day or last millisecond."
    " The decimal-second texts (scene centre, first state vector) carry 3..6 fraction digits. Stage 'in-place-pairs': two products at the same root, one after the other, both judged. Half of the cases judge the tree returned by the open that also writes the index cache, or a tree served from that cache; three in five run with the process time zone set away from UTC (PST8, JST-9, NPT-5:45)."
)
ASSUMPTIONS = [
    "ISO strings are compared as parsed instants",
    "the open finding D9 (attitude +1 day exactly) is filtered by its exact signature only",
]
BUDGET = {"quick": 90, "thorough": 1200}
JOBS = {"quick": 4, "thorough": 16}


@st.composite
def cases(draw):
    return {
        "level": draw(st.sampled_from(["1.1", "1.5"])),
        "images": [{"lines": draw(st.integers(1, 3)), "pixels": 1}],
        "instant": draw(common.instants()),
        "decimals": draw(st.integers(3, 6)),
        "vseed": draw(st.integers(0, 2**32 - 1)),
        # the scene centre may lie some minutes after the other fields' instant (next day / year)
        "leader": {"scene_center_offset_ms": draw(st.sampled_from([0, 0, 600_000]))},
        # judged tree: a plain uncached open / the open that also writes the index cache / an open
        # served from that cache; the process runs in UTC or in a zone west / east of it
        "open_mode": draw(st.sampled_from(["plain", "plain", "creating", "cached"])),
        "tz": draw(st.sampled_from([None, None, "PST8", "JST-9", "NPT-5:45"])),
    }


def plan(tier):
    n = 800 if tier == "quick" else 30000
    return [{"kind": "hyp", "name": "instants", "strategy": cases(), "examples": n},
            {"kind": "hyp", "name": "in-place-pairs", "strategy": common.in_place_pairs(cases()), "examples": max(60, n // 16)}]


def classify(case):
    inst = case["instant"]
    leap = inst["year"] % 4 == 0
    boundary = inst["doy"] in (1, 59, 60, 365, 366)
    last = inst["ms"] in (0, 86_399_999)
    labels = [f"doy={inst['doy']}" if boundary else "doy=other", "leap" if leap else "non-leap"]
    if last:
        labels.append("day-edge-time")
    labels += [f"open_mode={case.get('open_mode', 'plain')}", f"tz={case.get('tz')}"]
    return leap or boundary or last, labels


def instant_ns(inst, resolution_us):
    """the instant truncated to a resolution given in microseconds"""
    total_us = inst["ms"] * 1000 + inst["us"]
    total_us -= total_us % resolution_us
    day = np.datetime64(f"{inst['year']:04d}-01-01", "ns") + np.timedelta64(inst["doy"] - 1, "D")
    return day + np.timedelta64(total_us, "us")


def to_ns(value):
    if isinstance(value, str):
        return np.datetime64(dt.datetime.fromisoformat(value), "ns")
    return np.datetime64(value, "ns")


def run_case(case):
    inst = case["instant"]
    spec = common.spec_from(case)
    year, month, day = product.ymd_of(inst["year"], inst["doy"])
    total_us = inst["ms"] * 1000 + inst["us"]
    hh, rem = divmod(inst["ms"], 3_600_000)
    mm, rem = divmod(rem, 60_000)
    ss, ms = divmod(rem, 1000)
    dec = case["decimals"]
    frac = f"{total_us % 1_000_000:06d}"[:dec]
    spec["leader_overrides"] = {
        "platform_position/datetime_of_first_point/seconds_of_day": f"{total_us // 1_000_000}.{frac}".rjust(22)
    }
    names = product.file_names(spec["scene_id"], spec["product_id"], spec["images"])
    entries = product.default_summary_entries(spec, names)
    entries = [e for e in entries if e[1] != "SceneCenterDateTime"]
    entries.append(("Img", "SceneCenterDateTime", f"{year:04d}{month:02d}{day:02d} {hh:02d}:{mm:02d}:{ss:02d}.{ms:03d}"))
    spec["summary_entries"] = entries
    files, info = product.build_product(spec)
    out = []
    mode = case.get("open_mode", "plain")
    with harness.Materialised(files, "memory" if mode == "plain" else "local") as prod, harness.process_tz(case.get("tz")):
        try:
            tree, err = harness.guard(harness.open_tree, prod.url, use_cache=False, **({} if mode == "plain" else {"create_cache": True}))
            if err is None and mode == "cached":
                tree, err = harness.guard(harness.open_tree, prod.url, use_cache=True)
        finally:
            if mode != "plain":
                common.drop_user_cache(prod.url, info["names"]["sar_imagery"])
        if err is not None:
            return [harness.disc("exception", f"open_alos2 ({mode})", "a tree", harness.exc_text(err))]
        points = []  # (where, getter, resolution in us)
        g = "imagery/HH"
        points.append((f"/{g}#sensor_acquisition_date", lambda: tree[g]["sensor_acquisition_date"].values[0], 1000))
        if case["level"] == "1.1":
            points.append((f"/{g}#sensor_acquisition_date_microseconds", lambda: tree[g]["sensor_acquisition_date_microseconds"].values[0], 1))
        for sub in ("attitude", "rates"):
            points.append((f"/metadata/attitude/{sub}#time", lambda s=sub: tree[f"metadata/attitude/{s}"]["time"].values[0], 1000))
        points.append(("/metadata/platform_position@datetime_of_first_point", lambda: tree["metadata/platform_position"].attrs["datetime_of_first_point"], 10 ** (6 - dec)))
        points.append(("/metadata/dataset_summary@scene_center_time", lambda: tree["metadata/dataset_summary"].attrs["scene_center_time"], 10 ** (6 - inst.get("frac_digits", 3))))
        points.append(("/@creation_datetime", lambda: tree.attrs["creation_datetime"], 10_000))
        points.append(("/summary/image_information@SceneCenterDateTime", lambda: tree["summary/image_information"].attrs["SceneCenterDateTime"], 1000))
        for where, getter, res in points:
            value, err = harness.guard(getter)
            if err is not None:
                out.append(harness.disc("leaf-missing", where, "a time value", harness.exc_text(err)))
                continue
            got, err = harness.guard(to_ns, value)
            if err is not None:
                out.append(harness.disc("value", where, "a datetime", value))
                continue
            want = instant_ns(inst, res)
            if where.endswith("@scene_center_time"):
                want = want + np.timedelta64(case.get("leader", {}).get("scene_center_offset_ms", 0), "ms")
            if got != want:
                delta = model.delta_ns(got, want)
                out.append(harness.disc("value", where, want, got, delta_ns=delta, all_deltas_ns=[delta]))
    return out


LEVEL_TEXT = (
    "Relational model-based testing: one generated instant is written into every time-bearing "
    "field of a product and must read back as the same instant (to each field's stored "
    "resolution); boundary days and times are generated with high probability."
)
LEVEL_NOTE = "Trusted base: frozen layouts (positions of the time fields); numpy datetime64 arithmetic as calendar reference."
TECHNIQUE = "Hypothesis-generated instants written into all time fields; relational oracle (same instant everywhere)"
