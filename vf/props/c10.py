"""C10 Opening is a pure function of the product, independent of open history."""

import copy
import functools
import hashlib
import itertools
import json
import pathlib

from hypothesis import strategies as st

from vf import harness
from vf.ceosgen import product
from vf.props import c07, common
from vf.runner import SetupViolation, heartbeat, touch

ID = "C10"
LEVEL = "exploration"
RULE = (
    "Histories over the operations {open(use_cache, create_cache, rpc in {1, N, N+1, default}, "
    "options dict plain / with nested storage_options / absent), cli-create(adjacent | user dir, "
    "rpc), open with create_cache=True while the user cache dir cannot be created (allowed to fail with OSError, not to write elsewhere), open of the same product on memory:// or vtrace:// (uncached, or with index files shipped next to its images; with / without storage_options), delete local cache, delete adjacent cache, tear (truncate) the index files of one location, reload an earlier returned tree}. Quick: a "
    "Hypothesis RuleBasedStateMachine (120 machines x <= 12 steps) plus all histories of length "
    "<= 2 over a 16-operation alphabet and all 96 'produce a cache, disturb it, open' triples, plus 18 short histories in which a step (an open with / without cache use or creation) is carried out by another process whose preferred text encoding is not UTF-8 (C locale; some with another string hash seed) - caches written there are used here and the other way round, plus all pairs (one spelling of the local product path writes the cache, another reads it) over 10 spellings (plain, trailing slash(es), file:// and local:// URLs, relative paths, pathlib.Path, a path through a symlink followed by '..'); 24 histories through partial cache states (only one image of the product has an index: deleted, or made by the tool for one image); thorough: breadth-first enumeration of ALL histories up "
    "to length 4 over that alphabet (69904 per product) for a level-1.1 ScanSAR-like product (image files differ only in the scan suffix) and a level-1.5 product. "
    "Invariants after every step: the returned tree equals the uncached reference for this "
    "step's rpc; the product directory (listing + sha256) is unchanged except index files made "
    "by cli-create; the user cache dir contains exactly the index files the model predicts "
    "(written only when asked, complete, equal to the reference document; a torn index stays byte for byte as it is until a create_cache=True repairs it); the option dict "
    "passed in deep-equals its pre-call copy; module-level default dicts are still empty; trees "
    "returned by earlier steps still flatten to the same digest. Non-trivial: the history has an "
    "open after a cache-producing step."
)
ASSUMPTIONS = [
    "each worker process has a private XDG_CACHE_HOME, so the whole user cache dir can be compared with the model",
    "local filesystem products (the CLI only takes local paths)",
]
BUDGET = {"quick": 150, "thorough": 2400}
JOBS = {"quick": 4, "thorough": 16}
LEVELS = ["1.1", "1.5"]
N_LINES = 4


@functools.lru_cache(maxsize=None)
def base_files(level):
    spec = common.spec_from(
        {"level": level,
         # the level-1.1 product is ScanSAR-like: its image files differ only in the scan suffix
         # (the flag / code columns of the first image change from line to line)
         "images": [dict({"lines": N_LINES, "pixels": 3, "vary_constants": True}, **({"pol": "HH", "scan": "B1"} if level == "1.1" else {})),
                    dict({"lines": N_LINES - 1, "pixels": 2}, **({"pol": "HH", "scan": "B2"} if level == "1.1" else {}))],
         "vseed": 100 + LEVELS.index(level),
         "leader": {"map_projection": level != "1.1"}}
    )
    files, info = product.build_product(spec)
    return files, info["names"]["sar_imagery"]


def rpc_value(tag):
    return {"1": 1, "N": N_LINES, "N+1": N_LINES + 1, "2": 2, "default": None}[tag]


@functools.lru_cache(maxsize=None)
def reference(level, rpc_tag):
    """uncached tree (flattened) and index documents from a pristine copy"""
    files, images = base_files(level)
    with harness.Materialised(files, "local") as prod:
        opts = {"use_cache": False}
        if rpc_value(rpc_tag) is not None:
            opts["records_per_chunk"] = rpc_value(rpc_tag)
        _, flat = harness.reference_open(prod.url, **opts)
        harness.reference_open(prod.url, "reference open with create_cache=True", use_cache=False, create_cache=True)
        docs = {}
        for image in images:
            p = c07.user_index_path(prod.url, image)
            if not p.is_file():
                found = sorted(q.name for q in p.parent.glob("*")) if p.parent.exists() else []
                for q in (p.parent.glob("*") if p.parent.exists() else []):
                    q.unlink()
                raise SetupViolation(harness.disc(
                    "cache-not-at-documented-location", "create_cache=True",
                    f"<user_cache_dir>/xarray-ceos-alos2/<sha256(root)>/{image}.index", found))
            doc = json.loads(p.read_text())
            docs[image] = strip_root(doc)
        for image in images:
            c07.user_index_path(prod.url, image).unlink(missing_ok=True)
        p.parent.rmdir()
    return flat, docs


def strip_root(doc):
    """the index stores the product root; compare documents modulo that path"""
    doc = copy.deepcopy(doc)
    try:
        doc["data"]["data"]["data"]["root"] = "<root>"
    except (KeyError, TypeError):
        pass
    return doc


def sha_tree(root):
    out = {}
    root = pathlib.Path(root)
    if not root.exists():
        return out
    for p in sorted(root.rglob("*")):
        if p.is_file():
            out[str(p.relative_to(root))] = hashlib.sha256(p.read_bytes()).hexdigest()
    return out


class World:
    def __init__(self, level):
        self.level = level
        files, self.images = base_files(level)
        self.prod = harness.Materialised(files, "local").__enter__()
        self.url = self.prod.url
        self.local = set()  # images with a user-dir index
        self.adjacent = set()
        self.files = files
        self.remote = {}  # filesystem kind -> the same product materialised there
        self.torn_local = {}  # image -> the torn bytes its user-dir index must keep until repaired
        self.torn_adjacent = {}
        self.returned = []  # (tree, flat digest reference tag)
        self.product_sha = sha_tree(self.prod.dir)
        self.hash_dir = c07.user_index_path(self.url, self.images[0]).parent

    def close(self):
        for image in self.images:
            c07.user_index_path(self.url, image).unlink(missing_ok=True)
        try:
            self.hash_dir.rmdir()
        except OSError:
            pass
        self.prod.__exit__(None, None, None)
        for prod in self.remote.values():
            prod.__exit__(None, None, None)

    # ---- invariants -----------------------------------------------------------------------
    def check_state(self, what):
        out = []
        now = sha_tree(self.prod.dir)
        want = dict(self.product_sha)
        extra = {k: v for k, v in now.items() if k not in want}
        for k in list(extra):
            if k.endswith(".index") and k[: -len(".index")] in self.adjacent:
                extra.pop(k)
        missing_or_changed = [k for k, v in want.items() if now.get(k) != v]
        if missing_or_changed:
            out.append(harness.disc("product-dir-modified", what, "files unchanged", missing_or_changed[:3]))
        if extra:
            out.append(harness.disc("product-dir-modified", what, "no new files", sorted(extra)[:3]))
        for image in self.adjacent:
            if f"{image}.index" not in now:
                out.append(harness.disc("model-mismatch", what, f"adjacent index of {image}", "missing"))
        # the whole user cache dir
        cache = sha_tree(harness.cache_home())
        rel = self.hash_dir.relative_to(harness.cache_home())
        docs_ref = reference(self.level, "default")[1]
        want_files = {str(rel / f"{image}.index") for image in self.local}
        if set(cache) != want_files:
            out.append(harness.disc("user-cache-dir", what, sorted(want_files), sorted(cache)))
        docs = docs_ref
        for image, torn in self.torn_local.items():
            p = self.hash_dir / f"{image}.index"
            if p.is_file() and p.read_bytes() != torn:
                out.append(harness.disc("user-cache-rewritten-unasked", what, "the torn index left as it is (no cache creation was requested)", "rewritten"))
        for image, torn in self.torn_adjacent.items():
            p = self.prod.dir / f"{image}.index"
            if p.is_file() and p.read_bytes() != torn:
                out.append(harness.disc("product-dir-modified", what, "the torn adjacent index left as it is", "rewritten"))
        for image in self.local:
            if image in self.torn_local:
                continue
            p = self.hash_dir / f"{image}.index"
            if p.is_file():
                try:
                    if strip_root(json.loads(p.read_text())) != docs[image]:
                        out.append(harness.disc("user-cache-content", what, "the reference index document", "a different document"))
                except ValueError as e:
                    out.append(harness.disc("user-cache-content", what, "complete JSON", harness.exc_text(e)))
        out.extend(self.check_defaults(what))
        return out

    def check_defaults(self, what):
        out = []
        try:
            import ceos_alos2
            from ceos_alos2 import io as cio

            d = ceos_alos2.open_alos2.__defaults__
            if d and any(isinstance(x, dict) and x for x in d):
                out.append(harness.disc("default-dict-mutated", what, "{}", d))
            kd = cio.open.__kwdefaults__ or {}
            if any(isinstance(x, dict) and x for x in kd.values()):
                out.append(harness.disc("default-dict-mutated", what, "{}", kd))
        except AttributeError:
            pass
        return out

    # ---- operations ------------------------------------------------------------------------
    def apply(self, op):
        try:
            return self._apply(op)
        except SetupViolation as e:
            return [e.disc]

    def _apply(self, op):
        import ceos_alos2

        kind = op["op"]
        what = json.dumps(op, sort_keys=True)
        out = []
        if kind == "open":
            tag = op.get("rpc", "default")
            opts = None
            if op.get("opts") != "absent":
                opts = {}
                if "use_cache" in op:
                    opts["use_cache"] = op["use_cache"]
                if "create_cache" in op:
                    opts["create_cache"] = op["create_cache"]
                if rpc_value(tag) is not None:
                    opts["records_per_chunk"] = rpc_value(tag)
                if op.get("opts") == "storage_options":
                    opts["storage_options"] = {"auto_mkdir": False, "nested": {"k": [1, 2]}} if False else {"auto_mkdir": False}
            before = copy.deepcopy(opts)
            if opts is None:
                tree, err = harness.guard(ceos_alos2.open_alos2, self.url)
            else:
                tree, err = harness.guard(ceos_alos2.open_alos2, self.url, backend_options=opts)
            if opts != before:
                out.append(harness.disc("options-mutated", what, before, opts))
            use_cache = op.get("use_cache", True) if opts is not None else True
            create = op.get("create_cache", False) if opts is not None else False
            if create:
                for image in self.images:
                    intact_local = image in self.local and image not in self.torn_local
                    intact_adjacent = image in self.adjacent and image not in self.torn_adjacent
                    served_by_cache = use_cache and (intact_local or (image not in self.local and intact_adjacent))
                    if not served_by_cache:
                        # written when asked; a torn index is thereby repaired
                        self.local.add(image)
                        self.torn_local.pop(image, None)
            if err is not None:
                out.append(harness.disc("exception", what, "a tree", harness.exc_text(err)))
            else:
                ref, _ = reference(self.level, tag)
                flat, ferr = harness.guard(harness.flatten, tree)
                if ferr is not None:
                    out.append(harness.disc("exception", what, "loadable tree", harness.exc_text(ferr)))
                else:
                    out.extend(dict(d, where=f"history step: {d['where']}") for d in harness.diff_flat(ref, flat, kind="history-differs")[:4])
                    self.returned.append((tree, tag))
        elif kind == "open_elsewhere":
            # the same open performed by ANOTHER process whose preferred text encoding is not UTF-8
            # (C locale, UTF-8 mode off) - the environment of a cron job or a batch node.  Caches
            # written there are read here afterwards and the other way round.
            use_cache = op.get("use_cache", True)
            create = op.get("create_cache", False)
            flat, err = elsewhere_open(self.url, {"use_cache": use_cache, "create_cache": create}, op.get("hashseed"))
            if create:
                for image in self.images:
                    intact_local = image in self.local and image not in self.torn_local
                    intact_adjacent = image in self.adjacent and image not in self.torn_adjacent
                    served_by_cache = use_cache and (intact_local or (image not in self.local and intact_adjacent))
                    if not served_by_cache:
                        self.local.add(image)
                        self.torn_local.pop(image, None)
            if err is not None:
                out.append(harness.disc("exception", what, "a tree", err))
            else:
                ref, _ = reference(self.level, "default")
                out.extend(dict(d, where=f"history step: {d['where']}") for d in harness.diff_flat(ref, flat, kind="history-differs")[:4])
        elif kind == "open_remote":
            # the same product on a non-local filesystem, never cached: the trees must be the same,
            # the caller's dicts untouched and nothing may be remembered for later (local) opens
            if op["fs"] not in self.remote:
                self.remote[op["fs"]] = harness.Materialised(self.files, op["fs"]).__enter__()
            with_index = bool(op.get("with_index"))
            if with_index:
                # index files shipped next to the images of the remote product (made elsewhere)
                docs = reference(self.level, "default")[1]
                for image in self.images:
                    c07.put_adjacent(self.remote[op["fs"]], image, json.dumps(docs[image]))
            opts = None
            if op.get("opts") != "absent":
                opts = {"use_cache": with_index}
                if op.get("opts") == "storage_options":
                    opts["storage_options"] = {"skip_instance_cache": False}
            before = copy.deepcopy(opts)
            if opts is None:
                # defaults would look for a cache of the remote root: none exists, so it parses
                tree, err = harness.guard(ceos_alos2.open_alos2, self.remote[op["fs"]].url)
            else:
                tree, err = harness.guard(ceos_alos2.open_alos2, self.remote[op["fs"]].url, backend_options=opts)
            if opts != before:
                out.append(harness.disc("options-mutated", what, before, opts))
            if with_index:
                for image in self.images:
                    c07.remove_adjacent(self.remote[op["fs"]], image)
            if err is not None:
                out.append(harness.disc("exception", what, "a tree", harness.exc_text(err)))
            elif not with_index:
                # (through a shipped index the pixels of a non-local product cannot be loaded:
                # open finding D5 - the state checks below still apply)
                ref, _ = reference(self.level, "default")
                flat, ferr = harness.guard(harness.flatten, tree)
                if ferr is not None:
                    out.append(harness.disc("exception", what, "loadable tree", harness.exc_text(ferr)))
                else:
                    out.extend(dict(d, where=f"history step: {d['where']}") for d in harness.diff_flat(ref, flat, kind="history-differs")[:4])
        elif kind == "open_blocked":
            # the user cache dir cannot be written (a regular file sits where the product's cache
            # directory would be created): an open asked to create the cache may fail with OSError
            # or return the right tree - but it must not write anywhere else
            if not self.hash_dir.exists() and not self.local:
                self.hash_dir.parent.mkdir(parents=True, exist_ok=True)
                self.hash_dir.write_text("not a directory")
                try:
                    opts = {"use_cache": op.get("use_cache", False), "create_cache": True}
                    before = copy.deepcopy(opts)
                    tree, err = harness.guard(ceos_alos2.open_alos2, self.url, backend_options=opts)
                finally:
                    if self.hash_dir.is_file():
                        self.hash_dir.unlink()
                if opts != before:
                    out.append(harness.disc("options-mutated", what, before, opts))
                served = op.get("use_cache", False) and all(
                    im in self.adjacent and im not in self.torn_adjacent for im in self.images)
                if err is not None and not isinstance(err, OSError):
                    out.append(harness.disc("exception", what, "a tree or an OSError", harness.exc_text(err)))
                elif err is not None and served:
                    out.append(harness.disc("exception", what, "a tree (a usable adjacent cache serves every image)", harness.exc_text(err)))
                elif err is None:
                    ref, _ = reference(self.level, "default")
                    flat, ferr = harness.guard(harness.flatten, tree)
                    if ferr is not None:
                        out.append(harness.disc("exception", what, "loadable tree", harness.exc_text(ferr)))
                    else:
                        out.extend(dict(d, where=f"history step: {d['where']}") for d in harness.diff_flat(ref, flat, kind="history-differs")[:4])
                if self.hash_dir.is_dir() and not any(self.hash_dir.iterdir()):
                    self.hash_dir.rmdir()
        elif kind == "cli":
            tag = op.get("rpc", "default")
            for image in (self.images if op.get("image") is None else [self.images[op["image"] % len(self.images)]]):
                argv = []
                if rpc_value(tag) is not None:
                    argv += ["--rpc", str(rpc_value(tag))]
                argv.append(str(self.prod.dir / image))
                if op["target"] == "user":
                    self.hash_dir.mkdir(parents=True, exist_ok=True)
                    argv.append(str(self.hash_dir))
                code, stderr = c07.run_cli(argv)
                if code != 0:
                    out.append(harness.disc("cli-failed", what, "exit 0", f"exit {code}: {stderr[:120]}"))
                    continue
                (self.local if op["target"] == "user" else self.adjacent).add(image)
                (self.torn_local if op["target"] == "user" else self.torn_adjacent).pop(image, None)
        elif kind == "delete_local" and op.get("image") is not None:
            # the index of ONE image disappears: a partial cache state
            image = self.images[op["image"] % len(self.images)]
            (self.hash_dir / f"{image}.index").unlink(missing_ok=True)
            self.local.discard(image)
            self.torn_local.pop(image, None)
            try:
                self.hash_dir.rmdir()
            except OSError:
                pass
        elif kind == "delete_local":
            for image in self.images:
                (self.hash_dir / f"{image}.index").unlink(missing_ok=True)
            try:
                self.hash_dir.rmdir()
            except OSError:
                pass
            self.local.clear()
            self.torn_local.clear()
        elif kind == "tear":
            # an interrupted write: every index file at that location is cut in half
            for image in self.images:
                p = (self.hash_dir if op["where"] == "user" else self.prod.dir) / f"{image}.index"
                if p.is_file():
                    raw = p.read_bytes()
                    torn = raw[: max(1, len(raw) // 2)]
                    p.write_bytes(torn)
                    (self.torn_local if op["where"] == "user" else self.torn_adjacent)[image] = torn
        elif kind == "delete_adjacent":
            for image in self.images:
                (self.prod.dir / f"{image}.index").unlink(missing_ok=True)
            self.adjacent.clear()
            self.torn_adjacent.clear()
        elif kind == "reload_old":
            if self.returned:
                tree, tag = self.returned[op["index"] % len(self.returned)]
                ref, _ = reference(self.level, tag)
                flat, ferr = harness.guard(harness.flatten, tree)
                if ferr is not None:
                    out.append(harness.disc("exception", what, "earlier tree still loadable", harness.exc_text(ferr)))
                else:
                    out.extend(dict(d, where=f"earlier tree: {d['where']}") for d in harness.diff_flat(ref, flat, kind="earlier-tree-changed")[:4])
        else:
            raise ValueError(kind)
        if not self.local and self.hash_dir.exists() and not any(self.hash_dir.iterdir()):
            # an empty hash directory left by the library is not a file; ignore
            pass
        out.extend(self.check_state(what))
        return out


ELSEWHERE_SCRIPT = """
import pickle, sys
from vf import harness
url, opts, out = sys.argv[1], eval(sys.argv[2]), sys.argv[3]
tree, err = harness.guard(harness.open_tree, url, **opts)
flat = None
if err is None:
    flat, err = harness.guard(harness.flatten, tree)
with open(out, "wb") as f:
    pickle.dump((flat, None if err is None else harness.exc_text(err)), f)
"""


def elsewhere_open(url, opts, hashseed=None):
    import os
    import pickle
    import subprocess
    import sys
    import tempfile

    env = dict(os.environ, LC_ALL="C", LANG="C", PYTHONUTF8="0", PYTHONCOERCECLOCALE="0")
    env.pop("PYTHONIOENCODING", None)
    if hashseed is not None:
        # another string hash seed: iteration orders of sets differ from this process's
        env["PYTHONHASHSEED"] = str(hashseed)
    fd, name = tempfile.mkstemp(prefix="vfelsewhere-", dir=harness.scratch_root())
    os.close(fd)
    try:
        touch()
        r = subprocess.run([sys.executable, "-c", ELSEWHERE_SCRIPT, url, repr(opts), name], capture_output=True, text=True, env=env, timeout=100)
        touch()
        if r.returncode != 0 or os.path.getsize(name) == 0:
            raise RuntimeError(f"open_elsewhere subprocess failed: {r.stderr[-400:]}")
        with open(name, "rb") as f:
            return pickle.load(f)
    finally:
        os.unlink(name)


def partial_cache_cases():
    """histories through states in which only some images of the product have an index"""
    o = lambda **kw: dict({"op": "open"}, **kw)  # noqa: E731
    for level in LEVELS:
        for k in (0, 1):
            for create_use in (True, False):
                yield {"level": level, "ops": [o(use_cache=False, create_cache=True), {"op": "delete_local", "image": k},
                                               o(use_cache=create_use, create_cache=True, rpc="1"), o(use_cache=True), o(opts="absent")]}
                yield {"level": level, "ops": [{"op": "cli", "target": "user", "image": k}, o(use_cache=create_use, create_cache=True), o(use_cache=True, rpc="N")]}
                yield {"level": level, "ops": [{"op": "cli", "target": "adjacent", "image": k}, o(use_cache=create_use, create_cache=True), o(use_cache=True),
                                               {"op": "delete_adjacent"}, o(use_cache=True)]}


def elsewhere_cases():
    """short histories in which one step runs in a process with a non-UTF-8 preferred encoding"""
    here = lambda **kw: dict({"op": "open"}, **kw)  # noqa: E731
    there = lambda **kw: dict({"op": "open_elsewhere"}, **kw)  # noqa: E731
    histories = [
        [there(use_cache=False, create_cache=True), here(use_cache=True)],
        [here(use_cache=False, create_cache=True), there(use_cache=True)],
        [there(use_cache=True, create_cache=True), there(use_cache=True), here(opts="absent")],
        [{"op": "cli", "target": "adjacent"}, there(use_cache=True)],
        [{"op": "cli", "target": "user"}, {"op": "tear", "where": "user"}, there(use_cache=True, create_cache=True), here(use_cache=True)],
        [there(use_cache=True)],
        [there(use_cache=False, hashseed=1)],
        [there(use_cache=False, create_cache=True, hashseed=4242), here(use_cache=True)],
        [here(use_cache=False, create_cache=True), there(use_cache=True, hashseed=31337)],
    ]
    for level in LEVELS:
        for ops in histories:
            yield {"level": level, "ops": ops}


SPELLINGS = ["plain", "slash", "double-slash", "file", "file-slash", "local", "relative", "dot-relative", "pathlib", "symlink-dotdot"]


def spell(directory, how):
    d = str(directory)
    name = pathlib.Path(d).name
    if how == "symlink-dotdot":
        # <parent>/vf-view/lnk/../<name> where lnk -> <parent>/vf-sub: the operating system resolves
        # it to <parent>/<name>; a lexical normalisation would make it <parent>/vf-view/<name>
        parent = pathlib.Path(d).parent
        (parent / "vf-sub").mkdir(exist_ok=True)
        (parent / "vf-view").mkdir(exist_ok=True)
        link = parent / "vf-view" / "lnk"
        if not link.is_symlink():
            link.symlink_to(parent / "vf-sub")
        return f"{parent}/vf-view/lnk/../{name}"
    return {
        "plain": d, "slash": d + "/", "double-slash": d + "//", "file": "file://" + d, "file-slash": "file://" + d + "/",
        "local": "local://" + d, "relative": name, "dot-relative": "./" + name, "pathlib": pathlib.Path(d),
    }[how]


def spelling_cases():
    for level in LEVELS:
        for a, b in itertools.product(SPELLINGS, repeat=2):
            yield {"level": level, "spelled": [[a, False, True], [b, True, False]]}
        for a in SPELLINGS[1:]:
            yield {"level": level, "spelled": [[a, True, True], [a, True, True], ["plain", True, False], [a, False, False]]}


def run_spelled(case):
    """the same local product named in different ways (trailing slash, file:// / local:// URL,
    relative path, pathlib.Path): every open returns the reference tree - whatever spelling wrote
    the cache and whatever spelling reads it; the product directory stays as it is; the user cache
    dir only ever holds index files and does not change in a step that did not ask for one"""
    import os

    import ceos_alos2

    files, images = base_files(case["level"])
    ref, _ = reference(case["level"], "default")
    out = []
    cwd = os.getcwd()
    with harness.Materialised(files, "local") as prod:
        before_sha = sha_tree(prod.dir)
        os.chdir(prod.dir.parent)
        try:
            for n, (how, use_cache, create) in enumerate(case["spelled"]):
                what = f"step {n}: open_alos2({how} spelling, use_cache={use_cache}, create_cache={create})"
                cache_before = sha_tree(harness.cache_home())
                # relative spellings are resolved from the parent directory, the others from "/"
                os.chdir(prod.dir.parent if how in ("relative", "dot-relative") else "/")
                opts = {"use_cache": use_cache, "create_cache": create}
                keep = copy.deepcopy(opts)
                tree, err = harness.guard(ceos_alos2.open_alos2, spell(prod.dir, how), backend_options=opts)
                if opts != keep:
                    out.append(harness.disc("options-mutated", what, keep, opts))
                if err is not None:
                    out.append(harness.disc("exception", what, "a tree", harness.exc_text(err)))
                else:
                    flat, ferr = harness.guard(harness.flatten, tree)
                    if ferr is not None:
                        out.append(harness.disc("exception", what, "loadable tree", harness.exc_text(ferr)))
                    else:
                        out.extend(dict(d, where=f"{what}: {d['where']}") for d in harness.diff_flat(ref, flat, kind="history-differs")[:4])
                if sha_tree(prod.dir) != before_sha:
                    out.append(harness.disc("product-dir-modified", what, "files unchanged", sorted(set(sha_tree(prod.dir)) ^ set(before_sha))[:3]))
                cache_after = sha_tree(harness.cache_home())
                odd = [k for k in cache_after if not k.endswith(".index")]
                if odd:
                    out.append(harness.disc("user-cache-dir", what, "index files only", odd[:3]))
                if not create and cache_after != cache_before:
                    out.append(harness.disc("user-cache-rewritten-unasked", what, "user cache dir unchanged (no cache creation was requested)", sorted(set(cache_after.items()) ^ set(cache_before.items()))[:3]))
                if create and err is None and not any(k.endswith(".index") for k in cache_after):
                    out.append(harness.disc("user-cache-dir", what, "index files written", "none"))
                for d in out:
                    d.setdefault("context", {}).setdefault("step", n)
                if out:
                    break
        finally:
            os.chdir(cwd)
            import shutil

            shutil.rmtree(prod.dir.parent / "vf-view", ignore_errors=True)
            shutil.rmtree(prod.dir.parent / "vf-sub", ignore_errors=True)

            for child in (harness.cache_home().iterdir() if harness.cache_home().exists() else []):
                shutil.rmtree(child, ignore_errors=True)
    return out


def run_case(case):
    if "spelled" in case:
        return run_spelled(case)
    world = World(case["level"])
    out = []
    try:
        for n, op in enumerate(case["ops"]):
            discs = world.apply(op)
            for d in discs:
                d.setdefault("context", {})["step"] = n
            out.extend(discs)
            if out:
                break
    finally:
        world.close()
    return out


ALPHABET = [
    {"op": "open", "use_cache": True, "create_cache": False},
    {"op": "open", "use_cache": True, "create_cache": True, "rpc": "1"},
    {"op": "open", "use_cache": False, "create_cache": False, "rpc": "N"},
    {"op": "open", "use_cache": False, "create_cache": True, "rpc": "N+1"},
    {"op": "open", "use_cache": True, "rpc": "1", "opts": "storage_options"},
    {"op": "open", "opts": "absent"},
    {"op": "cli", "target": "adjacent", "rpc": "2"},
    {"op": "cli", "target": "user"},
    {"op": "delete_local"},
    {"op": "delete_adjacent"},
    {"op": "reload_old", "index": 0},
    {"op": "tear", "where": "user"},
    {"op": "tear", "where": "adjacent"},
    {"op": "open_remote", "fs": "memory", "opts": "storage_options"},
    {"op": "open_blocked", "use_cache": False},
    {"op": "open_remote", "fs": "memory", "opts": "absent", "with_index": True},
]


def bfs_cases(max_len):
    for level in LEVELS:
        for n in range(1, max_len + 1):
            for seq in itertools.product(range(len(ALPHABET)), repeat=n):
                yield {"level": level, "ops": [ALPHABET[i] for i in seq]}
        if max_len < 3:
            # the three-step shapes "produce a cache, disturb it, open": all of them
            producers = [ALPHABET[1], ALPHABET[3], ALPHABET[6], ALPHABET[7]]
            disturb = [ALPHABET[8], ALPHABET[9], ALPHABET[11], ALPHABET[12], ALPHABET[7], ALPHABET[6]]
            opens = [ALPHABET[0], ALPHABET[4], ALPHABET[5], ALPHABET[2]]
            for a, b, c in itertools.product(producers, disturb, opens):
                yield {"level": level, "ops": [a, b, c]}


op_strategy = st.one_of(
    st.fixed_dictionaries(
        {
            "op": st.just("open"),
            "use_cache": st.booleans(),
            "create_cache": st.booleans(),
            "rpc": st.sampled_from(["1", "N", "N+1", "default", "2"]),
            "opts": st.sampled_from(["plain", "plain", "storage_options"]),
        }
    ),
    st.just({"op": "open", "opts": "absent"}),
    st.fixed_dictionaries({"op": st.just("cli"), "target": st.sampled_from(["adjacent", "user"]), "rpc": st.sampled_from(["1", "2", "default", "N+1"])}),
    st.just({"op": "delete_local"}),
    st.fixed_dictionaries({"op": st.just("delete_local"), "image": st.integers(0, 1)}),
    st.fixed_dictionaries({"op": st.just("cli"), "target": st.sampled_from(["adjacent", "user"]), "image": st.integers(0, 1)}),
    st.just({"op": "delete_adjacent"}),
    st.fixed_dictionaries({"op": st.just("tear"), "where": st.sampled_from(["user", "adjacent"])}),
    st.fixed_dictionaries({"op": st.just("open_blocked"), "use_cache": st.booleans()}),
    st.fixed_dictionaries({"op": st.just("open_remote"), "fs": st.sampled_from(["memory", "vtrace"]), "opts": st.sampled_from(["plain", "storage_options", "absent"]),
                           "with_index": st.booleans()}),
    st.fixed_dictionaries({"op": st.just("reload_old"), "index": st.integers(0, 5)}),
)


def make_machine(on_history):
    """a RuleBasedStateMachine whose rules apply operations to a World; `on_history(case, discs)`
    is called after every step with the history so far and returns the unknown discrepancies"""
    from hypothesis.stateful import RuleBasedStateMachine, initialize, rule

    class HistoryMachine(RuleBasedStateMachine):
        def __init__(self):
            super().__init__()
            self.world = None
            self.ops = []
            self.level = None

        @initialize(level=st.sampled_from(LEVELS))
        def start(self, level):
            self.level = level
            self.world = World(level)

        @rule(op=op_strategy)
        def step(self, op):
            self.ops.append(op)
            heartbeat({"level": self.level, "ops": list(self.ops)})
            discs = self.world.apply(op)
            for d in discs:
                d.setdefault("context", {})["step"] = len(self.ops) - 1
            unknown = on_history({"level": self.level, "ops": list(self.ops)}, discs, final=False)
            assert not unknown, unknown[0]

        def teardown(self):
            if self.world is not None:
                on_history({"level": self.level, "ops": list(self.ops)}, [], final=True)
                self.world.close()

    return HistoryMachine


def plan(tier):
    q = tier == "quick"
    return [
        {"kind": "enum", "name": "bfs-histories", "cases": lambda: bfs_cases(2 if q else 4), "exhaustive": True},
        {"kind": "enum", "name": "partial-cache-states", "cases": partial_cache_cases, "exhaustive": False},
        {"kind": "enum", "name": "path-spellings", "cases": spelling_cases, "exhaustive": True},
        {"kind": "enum", "name": "other-environment-steps", "cases": elsewhere_cases, "exhaustive": False},
        {"kind": "machine", "name": "stateful-machine", "machine": make_machine, "examples": 120 if q else 3000, "steps": 12},
    ]


def classify(case):
    if "spelled" in case:
        return True, [f"level={case['level']}", "spelled"] + sorted({f"spelling={s[0]}" for s in case["spelled"]})
    producing = False
    nontrivial = False
    labels = {f"len={min(len(case['ops']), 6)}{'+' if len(case['ops']) > 6 else ''}", f"level={case['level']}"}
    for op in case["ops"]:
        if op["op"] in ("open", "open_elsewhere") and producing:
            nontrivial = True
        if (op["op"] in ("open", "open_elsewhere") and op.get("create_cache")) or op["op"] == "cli":
            producing = True
        labels.add(f"op={op['op']}")
    return nontrivial, sorted(labels)


LEVEL_TEXT = (
    "Model-based stateful testing of open histories: a Hypothesis rule-based state machine and a "
    "breadth-first enumeration of all bounded histories over a 16-operation alphabet; after every "
    "step the returned tree, the product directory, the user cache directory, the caller's option "
    "dicts, the library's default dicts and all earlier trees are checked against a model of the "
    "cache state. Exhaustive up to history length 4 (thorough) / 2 (quick) for two products."
)
LEVEL_NOTE = "Trusted: the model of which index files a step creates (vf/props/c10.py World.apply); references computed on a pristine copy."
TECHNIQUE = "Hypothesis RuleBasedStateMachine + bounded exhaustive history enumeration; history invariants vs pristine reference and cache-state model; metamorphic path-spelling / foreign-process steps"
