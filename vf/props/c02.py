"""C02 Indexing equivalence: any lazy selection equals NumPy on the full image."""

import functools
import itertools

import numpy as np
from hypothesis import strategies as st

from vf import harness
from vf.ceosgen import product
from vf.props import common
from vf.runner import OutOfDomain

ID = "C02"
LEVEL = "exploration"
RULE = (
    "Stage 'exhaustive-small': for images N in {1,2,5} x P in {1,4} (quick: (1,1),(2,3),(4,2),(1,2)), both sample types and every "
    "records_per_chunk 1..N+1, every int in [-n,n-1], every slice(a,b,s) with a,b in "
    "{None,-n-1..n+1}, s in {None,+-1,+-2,+-3,+-(n+1)}, every index array of length <=2, every non-decreasing index array of length 3 and 4 and three "
    "boolean masks on one axis, crossed with a covering set on the other axis (quick) or the full "
    "set (thorough). Stage 'random': Hypothesis chains of 1-3 operations (isel outer / vectorised, "
    ".sel on row labels, [] tuples) on larger images. Oracle: the same operation on an in-memory "
    "twin DataArray built from the raw sample bytes (shape before load, dims, coords, values "
    "bit-exact); domain guard: operation must be accepted by a trivial control BackendArray. "
    "Non-trivial: the result differs from the identity selection."
)
ASSUMPTIONS = [
    "xarray's own in-memory indexing of a NumPy-backed DataArray is the reference semantics",
    "operations rejected by xarray on a trivial control BackendArray(BASIC) are out of domain",
]
BUDGET = {"quick": 140, "thorough": 2400}
JOBS = {"quick": 4, "thorough": 16}
SHRINK = True


# ---------------------------------------------------------------------------------------------
# products (cached per process)
# ---------------------------------------------------------------------------------------------


@functools.lru_cache(maxsize=64)
def opened(level, lines, pixels, rpc, vseed):
    import xarray as xr
    from xarray.backends import BackendArray
    from xarray.core import indexing

    from vf.props import c01

    case = {"level": level, "images": [{"lines": lines, "pixels": pixels}], "vseed": vseed}
    spec = common.spec_from(case)
    files, info = product.build_product(spec)
    prod = harness.Materialised(files, "memory").__enter__()  # kept for the process lifetime
    try:
        tree = harness.open_tree(prod.url, records_per_chunk=rpc, use_cache=False)
    except Exception as e:  # noqa: BLE001 - an ordinary product must open
        raise harness.SetupViolation(harness.disc("exception", "open_alos2 of the image under selection", "a tree", harness.exc_text(e))) from e
    iinfo = info["images"][0]
    da = tree["imagery/HH"]["data"]
    words = c01.expected_words(iinfo)
    if iinfo["type_code"] == "C*8":
        truth = np.ascontiguousarray(words).view("<f4").view("complex64").reshape(lines, pixels)
    else:
        truth = words.astype("uint16")
    coords = {k: v.copy(deep=True) for k, v in da.coords.items()}
    for c in coords.values():
        c.load()
    twin = xr.DataArray(truth, dims=da.dims, coords=coords, attrs=da.attrs, name=da.name)

    class Control(BackendArray):
        def __init__(self, arr):
            self.arr = arr
            self.shape = arr.shape
            self.dtype = arr.dtype

        def __getitem__(self, key):
            return indexing.explicit_indexing_adapter(
                key, self.shape, indexing.IndexingSupport.BASIC, lambda k: self.arr[k]
            )

    control = xr.DataArray(
        xr.Variable(da.dims, indexing.LazilyIndexedArray(Control(truth))), coords=coords, name=da.name
    )
    return da, twin, control, iinfo["type_code"]


# ---------------------------------------------------------------------------------------------
# operations (JSON-able) and their application
# ---------------------------------------------------------------------------------------------


def to_indexer(ix):
    import xarray as xr

    t = ix["t"]
    if t == "int":
        return ix["v"]
    if t == "slice":
        return slice(*ix["v"])
    if t == "arr":
        return np.array(ix["v"], dtype=np.int64)
    if t == "list":
        return list(ix["v"])
    if t == "mask":
        return np.array(ix["v"], dtype=bool)
    if t == "da":
        return xr.DataArray(np.array(ix["v"], dtype=np.int64).reshape(ix.get("shape", [-1])), dims=ix["dims"])
    if t == "all":
        return slice(None)
    raise ValueError(t)


def apply_op(da, op):
    kind = op["op"]
    if kind == "isel":
        kwargs = {dim: to_indexer(op[dim]) for dim in ("rows", "columns") if dim in op}
        return da.isel(**kwargs)
    if kind == "getitem":
        key = tuple(to_indexer(k) for k in op["key"])
        if len(key) == 1:
            key = key[0]
        return da[key]
    if kind == "sel":
        rows = da["rows"].values if "rows" in da.coords and da["rows"].ndim == 1 else None
        if rows is None or "rows" not in da.dims:
            raise OutOfDomain()
        how = op["how"]
        n = len(rows)
        if n == 0:
            raise OutOfDomain()
        if how == "scalar":
            return da.sel(rows=rows[op["i"] % n])
        if how == "list":
            return da.sel(rows=[rows[i % n] for i in op["i"]])
        if how == "slice":
            a, b = sorted((op["i"][0] % n, op["i"][1] % n))
            return da.sel(rows=slice(rows[a], rows[b]))
        if how == "nearest":
            return da.sel(rows=float(rows[op["i"] % n]) + 0.4, method="nearest")
    if kind == "transpose":
        return da.transpose(*reversed(da.dims))
    raise ValueError(kind)


def run_ops(da, ops):
    for op in ops:
        da = apply_op(da, op)
    return da


def compare(lazy, twin, type_code, where):
    from vf.props import c01

    out = []
    if tuple(lazy.dims) != tuple(twin.dims):
        out.append(harness.disc("dims", where, twin.dims, lazy.dims))
    if tuple(lazy.shape) != tuple(twin.shape):
        out.append(harness.disc("shape-before-load", where, tuple(twin.shape), tuple(lazy.shape)))
    if set(lazy.coords) != set(twin.coords):
        out.append(harness.disc("coord-names", where, sorted(twin.coords), sorted(lazy.coords)))
    else:
        for name in twin.coords:
            a, b = lazy.coords[name], twin.coords[name]
            if a.dims != b.dims or not harness.array_bytes_equal(a.values, b.values):
                out.append(harness.disc("coord-values", where, b.values, a.values, coord=name))
    values, err = harness.guard(lambda: np.asarray(lazy.values))
    if err is not None:
        out.append(harness.disc(f"exception-{type(err).__name__}", where, "values", harness.exc_text(err)))
        return out
    tv = np.asarray(twin.values)
    if values.shape != tv.shape:
        out.append(harness.disc("shape-after-load", where, tv.shape, values.shape))
        return out
    if str(values.dtype) != str(tv.dtype):
        out.append(harness.disc("dtype", where, tv.dtype, values.dtype))
        return out
    if not harness.array_bytes_equal(np.ascontiguousarray(values), np.ascontiguousarray(tv)):
        out.append(harness.disc("values", where, tv, values))
    return out


NOTES = __import__("collections").Counter()


def run_case(case):
    da, twin, control, type_code = opened(
        case["level"], case["lines"], case["pixels"], case["rpc"], case.get("vseed", 7)
    )
    out = []
    for n, ops in enumerate(case["exprs"]):
        if n % 20 == 19:
            __import__("vf.runner").runner.touch()  # a batch reports progress to the process watchdog
        # domain guard: xarray must accept the operation on a trivially correct backend and
        # produce there what it produces in memory (otherwise the limitation is xarray's own)
        expected, err = harness.guard(run_ops, twin, ops)
        if err is not None:
            NOTES["out-of-domain:rejected-in-memory"] += 1
            continue
        ctl, err = harness.guard(run_ops, control, ops)
        if err is None:
            ctl_discs, err = harness.guard(compare, ctl, expected, type_code, "control")
        if err is not None or ctl_discs:
            NOTES["out-of-domain:xarray-limited"] += 1
            continue
        where = "selection"
        lazy, err = harness.guard(run_ops, da, ops)
        if err is not None:
            out.append(harness.disc(f"exception-{type(err).__name__}", where, f"shape {expected.shape}", harness.exc_text(err), expr=expr_text(ops)))
            continue
        for d in compare(lazy, expected, type_code, where):
            d.setdefault("context", {})["expr"] = expr_text(ops)
            out.append(d)
    return out


def ix_text(ix):
    t = ix["t"]
    if t == "slice":
        a, b, s = ix["v"]
        return f"slice({a},{b},{s})"
    if t == "da":
        return f"DataArray({ix['v']},dims={ix['dims']})"
    if t == "all":
        return ":"
    return f"{t}{ix['v']}"


def expr_text(ops):
    parts = []
    for op in ops:
        if op["op"] == "isel":
            parts.append("isel(" + ", ".join(f"{d}={ix_text(op[d])}" for d in ("rows", "columns") if d in op) + ")")
        elif op["op"] == "getitem":
            parts.append("[" + ", ".join(ix_text(k) for k in op["key"]) + "]")
        elif op["op"] == "sel":
            parts.append(f"sel(rows {op['how']} {op['i']})")
        else:
            parts.append(op["op"])
    return ".".join(parts)


# ---------------------------------------------------------------------------------------------
# exhaustive small domain
# ---------------------------------------------------------------------------------------------


def axis_indexers(n):
    out = []
    for i in range(-n, n):
        out.append({"t": "int", "v": i})
    bounds = [None] + list(range(-n - 1, n + 2))
    steps = [None, 1, -1, 2, -2, 3, -3, n + 1, -(n + 1)]
    for a, b, s in itertools.product(bounds, bounds, steps):
        out.append({"t": "slice", "v": [a, b, s]})
    vals = list(range(-n, n))
    out.append({"t": "arr", "v": []})
    for a in vals:
        out.append({"t": "arr", "v": [a]})
    for a, b in itertools.product(vals, vals):
        out.append({"t": "arr", "v": [a, b]})
    # every non-decreasing index array of length 3 and 4 (repeats and gaps: what a backend that
    # supports outer indexing is handed unchanged)
    for k in (3, 4):
        for combo in itertools.combinations_with_replacement(range(n), k):
            out.append({"t": "arr", "v": list(combo)})
    out.append({"t": "mask", "v": [True] * n})
    out.append({"t": "mask", "v": [False] * n})
    out.append({"t": "mask", "v": [i % 2 == 0 for i in range(n)]})
    return out


def cover_indexers(n):
    out = [
        {"t": "all"},
        {"t": "int", "v": 0},
        {"t": "int", "v": -1},
        {"t": "slice", "v": [None, None, -1]},
        {"t": "slice", "v": [1, None, 2]},
        {"t": "slice", "v": [0, 0, None]},
        {"t": "arr", "v": [n - 1, 0]},
        {"t": "mask", "v": [i % 2 == 0 for i in range(n)]},
    ]
    return out


def exhaustive_cases(tier):
    if tier == "quick":
        geoms = [("1.5", 1, 1), ("1.5", 2, 3), ("1.1", 2, 3), ("1.5", 4, 2), ("1.1", 1, 2)]
    else:
        geoms = [(lv, n, p) for lv in ("1.5", "1.1") for n, p in [(1, 1), (2, 4), (5, 4), (5, 1), (1, 4), (2, 1)]]
    for level, lines, pixels in geoms:
        rows_full = axis_indexers(lines)
        cols_full = axis_indexers(pixels)
        rows_cover = cover_indexers(lines)
        cols_cover = cover_indexers(pixels)
        for rpc in range(1, lines + 2):
            if tier == "quick":
                pairs = itertools.chain(
                    itertools.product(rows_full, cols_cover[:2]),
                    itertools.product(rows_cover, cols_full if rpc == 1 else []),
                )
            else:
                pairs = itertools.product(rows_full, cols_full)
            batch = []
            for r, c in pairs:
                batch.append([{"op": "isel", "rows": r, "columns": c}])
                if len(batch) == 200:
                    yield {"level": level, "lines": lines, "pixels": pixels, "rpc": rpc, "exprs": batch}
                    batch = []
            if batch:
                yield {"level": level, "lines": lines, "pixels": pixels, "rpc": rpc, "exprs": batch}


# ---------------------------------------------------------------------------------------------
# random larger domain
# ---------------------------------------------------------------------------------------------


def st_index(n):
    ints = st.integers(-n, max(n - 1, -n))
    bound = st.one_of(st.none(), st.integers(-n - 2, n + 2))
    step = st.one_of(st.none(), st.integers(-4, 4).filter(lambda s: s != 0), st.sampled_from([n + 1, -(n + 1)]))
    return st.one_of(
        st.builds(lambda v: {"t": "int", "v": v}, ints),
        st.builds(lambda a, b, s: {"t": "slice", "v": [a, b, s]}, bound, bound, step),
        st.builds(lambda v: {"t": "arr", "v": v}, st.lists(ints, min_size=0, max_size=6)),
        st.builds(lambda v: {"t": "list", "v": v}, st.lists(ints, min_size=1, max_size=4)),
        # sorted with repeats and gaps
        st.builds(lambda v: {"t": "arr", "v": sorted(v)}, st.lists(st.integers(0, max(n - 1, 0)), min_size=2, max_size=8)),
        st.builds(lambda v: {"t": "mask", "v": v}, st.lists(st.booleans(), min_size=n, max_size=n)),
        st.just({"t": "all"}),
    )


@st.composite
def st_op(draw, lines, pixels):
    kind = draw(st.sampled_from(["isel", "isel", "isel", "getitem", "sel", "vectorized", "transpose"]))
    if kind == "isel":
        op = {"op": "isel"}
        which = draw(st.sampled_from(["rows", "columns", "both"]))
        if which in ("rows", "both"):
            op["rows"] = draw(st_index(lines))
        if which in ("columns", "both"):
            op["columns"] = draw(st_index(pixels))
        return op
    if kind == "getitem":
        k = draw(st.integers(1, 2))
        return {"op": "getitem", "key": [draw(st_index(lines)), draw(st_index(pixels))][:k]}
    if kind == "sel":
        how = draw(st.sampled_from(["scalar", "list", "slice", "nearest"]))
        if how in ("scalar", "nearest"):
            return {"op": "sel", "how": how, "i": draw(st.integers(0, 1000))}
        if how == "slice":
            return {"op": "sel", "how": how, "i": [draw(st.integers(0, 1000)), draw(st.integers(0, 1000))]}
        return {"op": "sel", "how": how, "i": draw(st.lists(st.integers(0, 1000), min_size=1, max_size=4))}
    if kind == "vectorized":
        k = draw(st.integers(1, 5))
        rows = draw(st.lists(st.integers(-lines, lines - 1), min_size=k, max_size=k))
        cols = draw(st.lists(st.integers(-pixels, pixels - 1), min_size=k, max_size=k))
        which = draw(st.sampled_from(["both", "rows", "2d"]))
        if which == "both":
            return {"op": "isel", "rows": {"t": "da", "v": rows, "dims": ["z"]}, "columns": {"t": "da", "v": cols, "dims": ["z"]}}
        if which == "rows":
            return {"op": "isel", "rows": {"t": "da", "v": rows, "dims": ["z"]}}
        rows2 = (rows * 2)[: 2 * ((len(rows) * 2) // 2)]
        return {"op": "isel", "rows": {"t": "da", "v": rows2, "dims": ["a", "b"], "shape": [2, -1]}}
    return {"op": "transpose"}


@st.composite
def random_cases(draw):
    level = draw(st.sampled_from(["1.1", "1.5"]))
    lines = draw(st.sampled_from([3, 7, 12, 30]))
    pixels = draw(st.sampled_from([1, 3, 8]))
    rpc = draw(st.sampled_from(sorted({1, 2, 3, 5, lines - 1, lines, lines + 1, 1024})))
    n_ops = draw(st.integers(1, 3))
    ops = []
    # later ops see reduced dims; keep generation simple (sizes of the original) and let the
    # control backend decide whether the chain is in the domain
    for _ in range(n_ops):
        ops.append(draw(st_op(lines, pixels)))
    return {"level": level, "lines": lines, "pixels": pixels, "rpc": rpc, "exprs": [ops]}


def plan(tier):
    if tier == "quick":
        return [
            {"kind": "enum", "name": "exhaustive-small", "cases": lambda: exhaustive_cases("quick"), "exhaustive": True},
            {"kind": "hyp", "name": "random", "strategy": random_cases(), "examples": 1600},
        ]
    return [
        {"kind": "enum", "name": "exhaustive-small", "cases": lambda: exhaustive_cases("thorough"), "exhaustive": True},
        {"kind": "hyp", "name": "random", "strategy": random_cases(), "examples": 64000},
    ]


def sub_units(case):
    base = [case["level"], case["lines"], case["pixels"], case["rpc"]]
    for ops in case["exprs"]:
        nontrivial = any(
            op["op"] != "isel" or any(not is_identity(op[k]) for k in ("rows", "columns") if k in op)
            for op in ops
        )
        yield [base, ops], nontrivial


def is_identity(ix):
    return ix["t"] == "all" or (ix["t"] == "slice" and ix["v"] in ([None, None, None], [None, None, 1]))


def classify(case):
    labels = [f"level={case['level']}", "rpc<N" if case["rpc"] < case["lines"] else "rpc>=N"]
    nontrivial = False
    for ops in case["exprs"][:50]:
        if len(ops) > 1:
            labels.append(f"chain={len(ops)}")
        for op in ops:
            for key in ("rows", "columns"):
                ix = op.get(key)
                if ix is None:
                    continue
                if not is_identity(ix):
                    nontrivial = True
                if ix["t"] == "da":
                    labels.append("vectorised")
                if ix["t"] == "int" and key == "rows":
                    labels.append("int-on-rows")
                if ix["t"] == "slice" and (ix["v"][2] or 1) < 0:
                    labels.append("negative-step")
                if ix["t"] in ("arr", "list", "mask"):
                    labels.append(ix["t"])
            if op["op"] in ("sel", "getitem", "transpose"):
                labels.append(op["op"])
                nontrivial = True
    return nontrivial, sorted(set(labels))


LEVEL_TEXT = (
    "Differential testing against NumPy/xarray in-memory indexing: exhaustive over all index "
    "expressions of the stated small domain (every int / slice / short index array / masks per "
    "axis, every records_per_chunk 1..N+1, both sample types) plus Hypothesis-generated chains on "
    "larger images. Exhaustive on the small domain, sampled beyond."
)
LEVEL_NOTE = (
    "Trusted: xarray indexing of NumPy-backed arrays (reference) and xarray's "
    "explicit_indexing_adapter; operations xarray rejects on a trivial control backend are not judged."
)
TECHNIQUE = "exhaustive enumeration + Hypothesis chains, differential oracle (in-memory twin DataArray), control-backend domain guard"
