"""C15 Identifier decoding is total and exact over the documented code tables."""

import datetime as dt
import itertools
import random
import string

from hypothesis import strategies as st

from vf import harness
from vf.ceosgen import product
from vf.props import common

ID = "C15"
LEVEL = "exploration"
RULE = (
    "Exhaustive cross products from the harness's own copy of the documented code tables: all "
    "3600 product ids, 20 scan suffixes, all 13149 acquisition dates 2014-2049 in scene ids, all "
    "file-name shapes (IMG x 4 polarisations x {no scan, 20 scans} + VOL/LED/TRL) x 3600 product "
    "ids, uniqueness of the image group name over all "
    "(polarisation, scan number) pairs; Hypothesis near-misses (substitute / delete / insert one "
    "character, truncate, append garbage, lower-case) judged by an independent hand-written "
    "recogniser with three values (in language -> table meaning must be returned; out of language "
    "-> ValueError; ambiguous, e.g. undocumented mission name or year outside 2014-2049 -> no "
    "claim); a sample of product ids is opened as real products through open_alos2 (quick 40, "
    "thorough 900; a quarter of them once more with the lines of summary.txt in another order - identifier lines first, sorted, reversed), and products whose summary carries a product / scene id outside the language (level 1.6, month 13, or both at once; in the usual and in the three other line orders) must fail to open with ValueError. Non-trivial: every string (each is a distinct identifier); distinct = the string."
)
ASSUMPTIONS = [
    "the code tables in this file are the documented ones (decoders.py docstrings / JAXA format description)",
    "years outside 2014-2049 and mission names other than ALOS2 are ambiguous (not judged)",
]
BUDGET = {"quick": 120, "thorough": 2400}
JOBS = {"quick": 4, "thorough": 16}

# --- own copy of the documented tables -----------------------------------------------------------
OBSERVATION_MODES = {
    "SBS": "spotlight mode",
    "UBS": "ultra-fine mode single polarization",
    "UBD": "ultra-fine mode dual polarization",
    "HBS": "high-sensitive mode single polarization",
    "HBD": "high-sensitive mode dual polarization",
    "HBQ": "high-sensitive mode full (quad.) polarimetry",
    "FBS": "fine mode single polarization",
    "FBD": "fine mode dual polarization",
    "FBQ": "fine mode full (quad.) polarimetry",
    "WBS": "ScanSAR nominal 14MHz mode single polarization",
    "WBD": "ScanSAR nominal 14MHz mode dual polarization",
    "WWS": "ScanSAR nominal 28MHz mode single polarization",
    "WWD": "ScanSAR nominal 28MHz mode dual polarization",
    "VBS": "ScanSAR wide mode single polarization",
    "VBD": "ScanSAR wide mode dual polarization",
}
DIRECTIONS = {"L": "left looking", "R": "right looking"}
LEVELS = {"1.0": "level 1.0", "1.1": "level 1.1", "1.5": "level 1.5", "3.1": "level 3.1"}
OPTIONS = {"G": "geo-code", "R": "geo-reference", "_": "not specified"}
PROJECTIONS = {"U": "UTM", "P": "PS", "M": "MER", "L": "LCC", "_": "not specified"}
ORBITS = {"A": "ascending", "D": "descending"}
METHODS = {"F": "full aperture_method", "B": "SPECAN method"}
POLS = ["HH", "HV", "VH", "VV"]
FILETYPES = ["VOL", "LED", "IMG", "TRL"]


def all_product_ids():
    for m, d, l, o, p, a in itertools.product(OBSERVATION_MODES, DIRECTIONS, LEVELS, OPTIONS, PROJECTIONS, ORBITS):
        yield f"{m}{d}{l}{o}{p}{a}"


PRODUCT_IDS = list(all_product_ids())
SCANS = [f"{m}{n}" for m in METHODS for n in range(10)]


def all_dates():
    d = dt.date(2014, 1, 1)
    while d.year <= 2049:
        yield d
        d += dt.timedelta(days=1)


# --- independent recogniser (three-valued) ---------------------------------------------------------


def rec_product_id(s):
    if len(s) != 10:
        return ("out",)
    m, d, l, o, p, a = s[:3], s[3], s[4:7], s[7], s[8], s[9]
    if m in OBSERVATION_MODES and d in DIRECTIONS and l in LEVELS and o in OPTIONS and p in PROJECTIONS and a in ORBITS:
        return (
            "in",
            {
                "observation_mode": OBSERVATION_MODES[m],
                "observation_direction": DIRECTIONS[d],
                "processing_level": LEVELS[l],
                "processing_option": OPTIONS[o],
                "map_projection": PROJECTIONS[p],
                "orbit_direction": ORBITS[a],
            },
        )
    return ("out",)


def rec_scan(s):
    if len(s) == 2 and s[0] in METHODS and s[1] in string.digits:
        return ("in", {"processing_method": METHODS[s[0]], "scan_number": s[1]})
    return ("out",)


UPPER_DIGITS = set(string.ascii_uppercase + string.digits)


def rec_scene_id(s):
    # MMMMM OOOOO FFFF - YYMMDD
    if len(s) != 21 or s[14] != "-":
        return ("out",)
    mission, orbit, frame, date = s[:5], s[5:10], s[10:14], s[15:]
    if not (set(mission) <= UPPER_DIGITS and orbit.isdigit() and frame.isdigit() and date.isdigit()):
        return ("out",)
    if not all(c in string.digits for c in orbit + frame + date):  # str.isdigit accepts other scripts
        return ("out",)
    yy, mm, dd = int(date[:2]), int(date[2:4]), int(date[4:])
    try:
        d = dt.date(2000 + yy, mm, dd)
    except ValueError:
        # not a calendar date in the documented reading (YYMMDD): the decoder must not invent one
        return ("out-date",)
    if mission != "ALOS2" or not (2014 <= d.year <= 2049):
        return ("amb",)
    return ("in", {"mission_name": mission, "orbit_accumulation": orbit, "scene_frame": frame, "date": d})


def rec_filename(s):
    parts = s.split("-")
    # TTT[-PP]-SCENE(14)-DATE(6)-PRODUCT(10)[-SN]
    if len(parts) < 4:
        return ("out",)
    ft = parts[0]
    if len(ft) != 3 or not (set(ft) <= set(string.ascii_uppercase)):
        return ("out",)
    rest = parts[1:]
    pol = None
    if len(rest[0]) == 2 and set(rest[0]) <= {"H", "V"} and len(rest) in (4, 5) and len(rest[1]) == 14:
        pol, rest = rest[0], rest[1:]
    if len(rest) not in (3, 4):
        return ("out",)
    scene = rest[0] + "-" + rest[1]
    pid = rest[2]
    scan = rest[3] if len(rest) == 4 else None
    rs = rec_scene_id(scene)
    rp = rec_product_id(pid)
    rsc = rec_scan(scan) if scan is not None else ("in", {})
    if rs[0].startswith("out") or rp[0] == "out" or rsc[0] == "out":
        return ("out",)
    if rs[0] == "amb" or ft not in FILETYPES:
        return ("amb",)
    meaning = {"filetype": ft}
    if pol is not None:
        meaning["polarization"] = pol
    meaning.update(rs[1])
    meaning.update(rp[1])
    meaning.update(rsc[1])
    return ("in", meaning)


RECOGNISERS = {"product_id": rec_product_id, "scan": rec_scan, "scene_id": rec_scene_id, "filename": rec_filename}


def decoder(kind):
    from ceos_alos2 import decoders

    return {
        "product_id": decoders.decode_product_id,
        "scan": decoders.decode_scan_info,
        "scene_id": decoders.decode_scene_id,
        "filename": decoders.decode_filename,
    }[kind]


def normalise(result):
    out = {}
    for k, v in result.items():
        if isinstance(v, dt.datetime):
            v = v.date() if (v.hour, v.minute, v.second, v.microsecond) == (0, 0, 0, 0) else v
        out[k] = v
    return out


def judge(kind, s):
    verdict = RECOGNISERS[kind](s)
    if verdict[0] == "amb":
        NOTES["ambiguous-not-judged"] += 1
        return []
    result, err = harness.guard(decoder(kind), s)
    if verdict[0] == "in":
        if err is not None:
            return [harness.disc("rejected-valid", kind, verdict[1], harness.exc_text(err), string=s)]
        got = normalise(result)
        want = dict(verdict[1])
        if kind == "filename" and "polarization" not in want and got.get("polarization") is None:
            got.pop("polarization", None)
        if kind == "filename" and got.get("scan_info") is None and "scan_info" in got:
            got.pop("scan_info")
        if got != want:
            bad = sorted(k for k in set(got) | set(want) if got.get(k) != want.get(k))
            return [harness.disc("mis-decoded", kind, {k: want.get(k) for k in bad}, {k: got.get(k) for k in bad}, string=s)]
        return []
    # out of language
    if err is None:
        return [harness.disc("accepted-invalid", kind, "ValueError", normalise(result) if isinstance(result, dict) else result, string=s, why=verdict[0])]
    if not isinstance(err, ValueError):
        return [harness.disc("wrong-exception", kind, "ValueError", harness.exc_text(err), string=s)]
    return []


NOTES = __import__("collections").Counter()


# --- cases -----------------------------------------------------------------------------------------


def filename_shapes():
    shapes = [("IMG", pol, scan) for pol in POLS for scan in [None] + SCANS]
    shapes += [(ft, None, None) for ft in ("VOL", "LED", "TRL")]
    return shapes


def strings_for(case):
    kind = case["kind"]
    if kind == "product_id":
        return "product_id", PRODUCT_IDS[case["start"]: case["start"] + case["count"]]
    if kind == "scan":
        return "scan", SCANS
    if kind == "scene_id":
        dates = list(all_dates())[case["start"]: case["start"] + case["count"]]
        rng = random.Random(case["start"])
        return "scene_id", [f"ALOS2{rng.randrange(100000):05d}{rng.randrange(10000):04d}-{d:%y%m%d}" for d in dates]
    if kind == "filename":
        shapes = filename_shapes()
        ft, pol, scan = shapes[case["shape"]]
        rng = random.Random(case["shape"] * 100000 + case["start"])
        out = []
        for pid in PRODUCT_IDS[case["start"]: case["start"] + case["count"]: case.get("stride", 1)]:
            d = dt.date(2014, 1, 1) + dt.timedelta(days=rng.randrange(13149))
            name = ft + (f"-{pol}" if pol else "") + f"-ALOS2{rng.randrange(100000):05d}{rng.randrange(10000):04d}-{d:%y%m%d}-{pid}" + (f"-{scan}" if scan else "")
            out.append(name)
        return "filename", out
    if kind == "mutant":
        return case["of"], [case["string"]]
    if kind == "neighbourhood":
        # ALL strings at edit distance one (substitution, deletion, insertion over the alphabet of
        # the identifiers plus a lower-case letter, a blank and digits of other scripts)
        base = case["string"]
        alphabet = ALPHABET + "a \uff13\u0663"
        out = set()
        for i in range(len(base) + 1):
            for ch in alphabet:
                out.add(base[:i] + ch + base[i:])
                if i < len(base):
                    out.add(base[:i] + ch + base[i + 1:])
            if i < len(base):
                out.add(base[:i] + base[i + 1:])
        out.discard(base)
        return case["of"], sorted(out)
    raise ValueError(kind)


def run_case(case):
    if case["kind"] == "fuzz-input":
        return FUZZ_TARGETS[case["target"]](bytes.fromhex(case["data"]))[0]
    if case["kind"] == "groupnames":
        return check_group_names()
    if case["kind"] == "open":
        return check_open(case)
    kind, strings = strings_for(case)
    out = []
    for s in strings:
        out.extend(judge(kind, s))
        if len(out) > 5:
            break
    return out


def check_group_names():
    from ceos_alos2.sar_image import filename_to_groupname

    out = []
    for method in METHODS:
        seen = {}
        for pol in POLS:
            for scan in [None] + [f"{method}{n}" for n in range(10)]:
                name = f"IMG-{pol}-ALOS2014410740-140829-WBDR1.1__A" + (f"-{scan}" if scan else "")
                g, err = harness.guard(filename_to_groupname, name)
                if err is not None:
                    out.append(harness.disc("rejected-valid", "groupname", "a name", harness.exc_text(err), string=name))
                    continue
                want = pol + (f"_scan{scan[1]}" if scan else "")
                if g != want:
                    out.append(harness.disc("mis-decoded", "groupname", want, g, string=name))
                if g in seen:
                    out.append(harness.disc("groupname-collision", "groupname", "unique per (pol, scan)", g, string=[seen[g], name]))
                seen[g] = name
    return out


def bad_image_name(good, how):
    """IMG-PP-SCENE-DATE-PRODUCT[-SN] with one component replaced by a near miss"""
    parts = good.split("-")
    if how == "date":
        parts[3] = parts[3][:2] + "0230"          # 30 February
    elif how == "month":
        parts[3] = parts[3][:2] + "1301"
    elif how == "level":
        parts[4] = parts[4][:4] + "2.1" + parts[4][7:]
    elif how == "mode":
        parts[4] = "XYZ" + parts[4][3:]
    elif how == "pol":
        parts[1] = "XX"
    elif how == "lower":
        parts[4] = parts[4].lower()
    elif how == "scan":
        parts = parts[:5] + ["BX"]
    return "-".join(parts)


def check_open(case):
    """a product named with this id is opened for real"""
    pid = PRODUCT_IDS[case["index"]]
    level = pid[4:7]
    verdict = rec_product_id(pid)[1]
    scan = case.get("scan")
    # acquisition dates incl. the days around New Year (ISO week-year differs), leap days, month ends
    special = [dt.date(2014, 12, 29), dt.date(2016, 1, 1), dt.date(2019, 12, 31), dt.date(2020, 2, 29), dt.date(2021, 1, 3),
               dt.date(2024, 12, 30), dt.date(2027, 1, 1), dt.date(2032, 2, 29), dt.date(2049, 12, 31), dt.date(2014, 5, 24)]
    rng = random.Random(case["index"])
    date = special[case["index"] % len(special)] if case["index"] % 3 else dt.date(2014, 1, 1) + dt.timedelta(days=rng.randrange(13149))
    orbit, frame = rng.randrange(100000), rng.randrange(10000)
    if case.get("zero"):
        # the smallest legal numbers: orbit 00000 and / or frame 0000 decode to the integer 0
        orbit, frame = (0, frame) if case["zero"] == "orbit" else (orbit, 0) if case["zero"] == "frame" else (0, 0)
    spec = common.spec_from(
        {
            "level": level if level != "1.0" else "1.1",
            "product_id": pid,
            "scene_id": f"ALOS2{orbit:05d}{frame:04d}-{date:%y%m%d}",
            "images": [{"lines": 1, "pixels": 1, "pol": "HH", "scan": scan}, {"lines": 1, "pixels": 1, "pol": "HV", "scan": scan}],
            "vseed": case["index"],
        }
    )
    files, info = product.build_product(spec)
    if case.get("order"):
        # the same summary with its lines in another order (the two identifier lines first,
        # sorted by keyword, reversed): what the identifiers decode to does not depend on it
        lines = files["summary.txt"].decode("ascii").splitlines(keepends=True)
        if case["order"] == "ids-first":
            lines.sort(key=lambda l: not l.startswith(("Scs_SceneID", "Pds_ProductID")))
        elif case["order"] == "sorted":
            lines.sort()
        elif case["order"] == "reversed":
            lines.reverse()
        files["summary.txt"] = "".join(lines).encode("ascii")
    if case.get("bad_id"):
        # an identifier outside the language in the summary: the open must fail with ValueError
        text = files["summary.txt"].decode("ascii")
        bad = ""
        if case["bad_id"] in ("product", "both"):
            bad = pid[:4] + "1.6" + pid[7:]
            text = text.replace(f'Pds_ProductID="{pid}"', f'Pds_ProductID="{bad}"')
        if case["bad_id"] in ("scene", "both"):
            # (both: two sections of the summary hold an identifier outside the language at once)
            bad_scene = spec["scene_id"][:-4] + "1332"
            text = text.replace(f'Scs_SceneID="{spec["scene_id"]}"', f'Scs_SceneID="{bad_scene}"')
            bad = (bad + " + " if bad else "") + bad_scene
        files["summary.txt"] = text.encode("ascii")
        with harness.Materialised(files, "memory") as prod:
            tree, err = harness.guard(harness.open_tree, prod.url, use_cache=False)
        if err is None:
            return [harness.disc("accepted-invalid", "open_alos2", "ValueError", "a tree", string=bad)]
        if not isinstance(err, ValueError):
            return [harness.disc("wrong-exception", "open_alos2", "ValueError", harness.exc_text(err), string=bad)]
        return []
    if case.get("bad_name"):
        # the same product with ONE image file whose name is outside the language (and listed
        # under that name in the summary): the name must be rejected, not turned into some group
        good = info["names"]["sar_imagery"][0]
        bad = bad_image_name(good, case["bad_name"])
        if RECOGNISERS["filename"](bad)[0] != "out":
            return []
        files[bad] = files.pop(good)
        files["summary.txt"] = files["summary.txt"].replace(good.encode(), bad.encode())
        with harness.Materialised(files, "memory") as prod:
            tree, err = harness.guard(harness.open_tree, prod.url, use_cache=False)
        if err is None:
            return [harness.disc("accepted-invalid", "open_alos2", "ValueError", sorted(tree["imagery"].children), string=bad)]
        if not isinstance(err, ValueError):
            return [harness.disc("wrong-exception", "open_alos2", "ValueError", harness.exc_text(err), string=bad)]
        return []
    with harness.Materialised(files, "memory") as prod:
        tree, err = harness.guard(harness.open_tree, prod.url, use_cache=False)
        if err is not None:
            return [harness.disc("rejected-valid", "open_alos2", "a tree", harness.exc_text(err), string=pid)]
        out = []
        attrs = dict(tree["summary/product_specification"].attrs)
        for k, v in verdict.items():
            if attrs.get(k) != v:
                out.append(harness.disc("mis-decoded", "open_alos2", {k: v}, {k: attrs.get(k)}, string=pid))
        sattrs = dict(tree["summary/scene_specification"].attrs)
        want = {"mission_name": "ALOS2", "orbit_accumulation": orbit, "scene_frame": frame, "date": date.isoformat()}
        for k, v in want.items():
            if sattrs.get(k) != v:
                out.append(harness.disc("mis-decoded", "open_alos2", {k: v}, {k: sattrs.get(k)}, string=spec["scene_id"]))
        names = list(tree["imagery"].children)
        if names != common.group_names(spec):
            out.append(harness.disc("mis-decoded", "open_alos2", common.group_names(spec), names, string=pid))
    return out


def enum_cases(tier):
    yield {"kind": "scan"}
    yield {"kind": "groupnames"}
    for start in range(0, 3600, 400):
        yield {"kind": "product_id", "start": start, "count": 400}
    n_dates = 13149
    for start in range(0, n_dates, 500):
        yield {"kind": "scene_id", "start": start, "count": min(500, n_dates - start)}
    stride = 1
    for shape in range(len(filename_shapes())):
        for start in range(0, 3600, 1200):
            yield {"kind": "filename", "shape": shape, "start": start + (shape % stride), "count": 1200 - (shape % stride), "stride": stride}
    # complete one-edit neighbourhoods of a spread of valid identifiers
    rng = random.Random(15)
    step = 90 if tier == "quick" else 9
    for pid in PRODUCT_IDS[::step]:
        yield {"kind": "neighbourhood", "of": "product_id", "string": pid}
    for scan in SCANS[:: 5 if tier == "quick" else 1]:
        yield {"kind": "neighbourhood", "of": "scan", "string": scan}
    for _ in range(6 if tier == "quick" else 60):
        d = dt.date(2014, 1, 1) + dt.timedelta(days=rng.randrange(13149))
        scene = f"ALOS2{rng.randrange(100000):05d}{rng.randrange(10000):04d}-{d:%y%m%d}"
        yield {"kind": "neighbourhood", "of": "scene_id", "string": scene}
        ft, pol, scan = rng.choice(filename_shapes())
        yield {"kind": "neighbourhood", "of": "filename",
               "string": ft + (f"-{pol}" if pol else "") + f"-{scene}-{rng.choice(PRODUCT_IDS)}" + (f"-{scan}" if scan else "")}
    n_open = 40 if tier == "quick" else 900
    rng = random.Random(5)
    for i in range(n_open):
        idx = rng.randrange(3600)
        scan = rng.choice([None, None, "F1", "B3"])
        yield {"kind": "open", "index": idx, "scan": scan}
        if i % 4 == 0:
            yield {"kind": "open", "index": idx, "scan": scan, "order": ["ids-first", "sorted", "reversed"][(i // 4) % 3]}
    for zero in ("orbit", "frame", "both"):
        yield {"kind": "open", "index": rng.randrange(3600), "scan": None, "zero": zero}
    for j, (what, order) in enumerate(itertools.product(["product", "scene", "both"], [None, "ids-first", "sorted", "reversed"])):
        case = {"kind": "open", "index": rng.randrange(3600), "scan": None, "bad_id": what}
        if order:
            case["order"] = order
        yield case
    for j, how in enumerate(["date", "month", "level", "mode", "pol", "lower", "scan"]):
        yield {"kind": "open", "index": rng.randrange(3600), "scan": [None, "F2"][j % 2], "bad_name": how}


ALPHABET = string.ascii_uppercase + string.digits + "._-"


@st.composite
def mutant_cases(draw):
    of = draw(st.sampled_from(["product_id", "scene_id", "scan", "filename", "filename"]))
    rng_seed = draw(st.integers(0, 10**6))
    rng = random.Random(rng_seed)
    if of == "product_id":
        s = rng.choice(PRODUCT_IDS)
    elif of == "scan":
        s = rng.choice(SCANS)
    elif of == "scene_id":
        d = dt.date(2014, 1, 1) + dt.timedelta(days=rng.randrange(13149))
        s = f"ALOS2{rng.randrange(100000):05d}{rng.randrange(10000):04d}-{d:%y%m%d}"
    else:
        ft, pol, scan = rng.choice(filename_shapes())
        d = dt.date(2014, 1, 1) + dt.timedelta(days=rng.randrange(13149))
        s = ft + (f"-{pol}" if pol else "") + f"-ALOS2{rng.randrange(100000):05d}{rng.randrange(10000):04d}-{d:%y%m%d}-{rng.choice(PRODUCT_IDS)}" + (f"-{scan}" if scan else "")
    op = draw(st.sampled_from(["substitute", "delete", "insert", "truncate", "append", "prepend", "lower", "swap", "none",
                               "other-script-digit", "fullwidth"]))
    pos = draw(st.integers(0, max(0, len(s) - 1)))
    ch = draw(st.sampled_from(ALPHABET + "a z\n"))
    if op == "substitute":
        s = s[:pos] + ch + s[pos + 1:]
    elif op == "delete":
        s = s[:pos] + s[pos + 1:]
    elif op == "insert":
        s = s[:pos] + ch + s[pos:]
    elif op == "truncate":
        s = s[:pos]
    elif op == "append":
        s = s + draw(st.text(ALPHABET + " \n", min_size=1, max_size=4))
    elif op == "prepend":
        s = draw(st.text(ALPHABET + " ", min_size=1, max_size=3)) + s
    elif op == "lower":
        s = s[:pos] + s[pos:].lower()
    elif op == "other-script-digit":
        # the same digit value written in another script (fullwidth, Arabic-Indic, Devanagari):
        # str.isdigit(), int() and regex \\d accept these, the documented language does not
        digits = [i for i, c in enumerate(s) if c in string.digits]
        if digits:
            i = digits[pos % len(digits)]
            base = draw(st.sampled_from([0xFF10, 0x0660, 0x0966]))
            s = s[:i] + chr(base + int(s[i])) + s[i + 1:]
    elif op == "fullwidth":
        if s and 0x21 <= ord(s[pos]) <= 0x7E:
            s = s[:pos] + chr(ord(s[pos]) + 0xFEE0) + s[pos + 1:]
    elif op == "swap" and pos + 1 < len(s):
        s = s[:pos] + s[pos + 1] + s[pos] + s[pos + 2:]
    return {"kind": "mutant", "of": of, "string": s, "op": op}


def fuzz_decode_filename(data):
    try:
        s = data.decode("utf-8")
    except UnicodeDecodeError:
        return [], False
    before = NOTES["ambiguous-not-judged"]
    discs = judge("filename", s)
    judged = NOTES["ambiguous-not-judged"] == before
    NOTES.clear()
    return discs, judged


FUZZ_TARGETS = {"decode_filename": fuzz_decode_filename}


def plan(tier):
    stages = plan_base(tier)
    if tier == "thorough":
        tokens = ["IMG", "VOL", "LED", "TRL", "-HH", "-HV", "-VV", "ALOS2", "-140829", "1.1", "1.5", "3.1", "1.0", "__A", "RUD", "-F1", "-B9", *list(OBSERVATION_MODES)]
        seeds = [b"IMG-HH-ALOS2014410740-140829-HBQR1.1__A", b"VOL-ALOS2014410740-140829-WBDR1.5RUD", b"IMG-VV-ALOS2014410740-140829-WBDR1.1__D-F3"]
        stages.append({"kind": "fuzz", "name": "atheris-decode_filename", "target": "decode_filename", "seconds": 300, "corpus": seeds,
                       "shard_all": True, "max_len": 64, "dict": tokens})
        stages.append({"kind": "fuzz", "name": "atheris-decode_filename-empty-corpus", "target": "decode_filename", "seconds": 120, "corpus": [], "max_len": 64, "dict": tokens})
    return stages


def plan_base(tier):
    return [
        {"kind": "enum", "name": "code-table cross products", "cases": lambda: enum_cases(tier), "exhaustive": True},
        {"kind": "hyp", "name": "near-misses", "strategy": mutant_cases(), "examples": 8000 if tier == "quick" else 200000},
    ]


def sub_units(case):
    if case["kind"] in ("groupnames", "open", "fuzz-input"):
        yield case, True
        return
    kind, strings = strings_for(case)
    for s in strings:
        yield [kind, s], True


def classify(case):
    labels = [f"kind={case['kind']}"]
    if case["kind"] == "mutant":
        verdict = RECOGNISERS[case["of"]](case["string"])[0]
        labels.append(f"mutant:{verdict}")
        labels.append(f"op={case['op']}")
    return True, labels


LEVEL_TEXT = (
    "Exhaustive enumeration of the identifier languages built from an independent copy of the "
    "documented code tables (membership and meaning oracle), Hypothesis near-miss mutation with a "
    "three-valued hand-written recogniser, and real products named with sampled ids opened "
    "through open_alos2. The enumerations of product ids, scans, dates and (thorough) all "
    "file-name shapes are complete."
)
LEVEL_NOTE = "Trusted base: the code tables and the recogniser in vf/props/c15.py."
TECHNIQUE = "exhaustive enumeration over own code tables + Hypothesis near-miss mutation; language-membership/meaning oracle (three-valued recogniser)"
