"""C11 Reads are bounded and grouped: one request per touched chunk, none outside."""

import math

import numpy as np
from hypothesis import strategies as st

from vf import harness, vtrace
from vf.ceosgen import product
from vf.props import c02, common

ID = "C11"
LEVEL = "exploration"
RULE = (
    "Hypothesis draws an image geometry (1..30 lines, 1..6 pixels, a quarter 16..96 pixels wide, both sample types), "
    "records_per_chunk from 1..N+2 and large values, and 1-4 selections (C02's strategies: ints, "
    "slices with any step, index arrays, masks, vectorised indexers, chains) on a product served "
    "by the instrumented vtrace:// filesystem, which records every open / seek / read with "
    "offset and size. Oracle over the event log - load: no file other than that image is opened "
    "or read; every read lies inside the file and inside the byte extent of ONE group of "
    "records_per_chunk consecutive lines; at most one read per group; only groups overlapping "
    "[min selected row, max selected row] are read (nothing is read for an empty selection). "
    "open: the reads touching bytes >= 720 of an image number at most ceil(N / rpc), have "
    "strictly increasing non-overlapping offsets and stay inside the file. Non-trivial: the "
    "selected span covers >= 1 group and fewer than all groups."
    " Domain guard: a selection is judged only if xarray produces on a trivially correct lazily indexed control backend what it produces in memory. The file objects advertise a block size of 64 bytes. Half of the cases judge an open that follows another open of the same product (handed the very same options dict object, or with another records_per_chunk); in three of five cases the selections are loaded from a copy of the tree (pickle round trip, DataTree.copy(deep=True), copy.deepcopy of the image dataset), and making the copy must not read line records; a third of the judged opens also write the index cache."
)
ASSUMPTIONS = [
    "the vtrace filesystem sees every byte the library requests (no hidden buffering: it hands out raw file objects)",
    "the row span of a selection is computed by running the same operations on an in-memory index grid",
]
BUDGET = {"quick": 120, "thorough": 1500}
JOBS = {"quick": 2, "thorough": 16}


@st.composite
def cases(draw):
    lines = draw(st.integers(1, 30))
    # mostly narrow images; a quarter are wide, so that a column selection can be a small window
    pixels = draw(st.one_of(st.integers(1, 6), st.integers(1, 6), st.integers(1, 6), st.sampled_from([16, 40, 64, 96])))
    rpc = draw(st.one_of(st.integers(1, lines + 2), st.sampled_from([1, 2, 1024, 2**31])))
    sels = []
    for _ in range(draw(st.integers(1, 4))):
        n_ops = draw(st.integers(1, 2))
        sels.append([draw(c02.st_op(lines, pixels)) for _ in range(n_ops)])
    return {
        "level": draw(st.sampled_from(["1.1", "1.5"])),
        "lines": lines,
        "pixels": pixels,
        "rpc": rpc,
        "selections": sels,
        "second_image": draw(st.booleans()),
        "vseed": draw(st.integers(0, 2**16)),
        # the judged open is the first one / the second one handed the same options object /
        # one that follows an open of the same product with another chunking
        "prior_open": draw(st.sampled_from([None, None, "same-options-object", "other-rpc"])),
        # the selections are loaded from the tree as returned / from a pickled copy / from a deep copy
        "copy": draw(st.sampled_from([None, None, "pickle", "deepcopy", "dataset-deepcopy"])),
        # the judged open also writes the index cache (its tree is a tree like any other)
        "create_cache": draw(st.sampled_from([False, False, True])),
    }


def wide_cases():
    """one image whose default chunk (all of its 140 records of about 1 MB) is a request of
    140 MB: opening it still takes one read of line records per chunk (round 14, C11n: a reader
    that splits requests above a size cap)"""
    yield {"wide": True, "level": "1.5", "lines": 140, "pixels": 499900, "rpc": 1024, "vseed": 5, "case_timeout_s": 600}
    yield {"wide": True, "level": "1.5", "lines": 140, "pixels": 499900, "rpc": 100, "vseed": 6, "case_timeout_s": 600}


def run_wide(case):
    import ceos_alos2
    from vf.runner import touch

    spec = common.spec_from({"level": case["level"], "images": [{"lines": case["lines"], "pixels": case["pixels"]}], "vseed": case["vseed"]})
    files, info = product.build_product(spec)
    touch()
    out = []
    with harness.Materialised(files, "vtrace") as prod:
        touch()
        vtrace.STORE.clear()
        tree, err = harness.guard(ceos_alos2.open_alos2, prod.url, backend_options={"use_cache": False, "records_per_chunk": case["rpc"]})
        touch()
        events = vtrace.STORE.snapshot()
        if err is not None:
            return [harness.disc("exception", "open_alos2", "a tree", harness.exc_text(err))]
        geoms = {i["name"]: (i["lines"], i["reclen"]) for i in info["images"]}
        sizes = {i["name"]: len(files[i["name"]]) for i in info["images"]}
        check_open_events(events, geoms, sizes, case["rpc"], out)
    return out


def plan(tier):
    n = 500 if tier == "quick" else 60000
    return [
        {"kind": "enum", "name": "wide-chunk", "cases": wide_cases, "exhaustive": False},
        {"kind": "hyp", "name": "selections", "strategy": cases(), "examples": n},
    ]


def classify(case):
    if case.get("wide"):
        return True, ["request>128 MiB", f"level={case['level']}"]
    n_groups = math.ceil(case["lines"] / min(case["rpc"], case["lines"]))
    labels = [f"groups={'1' if n_groups == 1 else '2-5' if n_groups <= 5 else '>5'}", f"level={case['level']}", f"prior_open={case.get('prior_open')}", f"copy={case.get('copy')}", f"create_cache={bool(case.get('create_cache'))}"]
    return n_groups >= 2, labels


def sub_units(case):
    if case.get("wide"):
        yield [["wide", case["rpc"], case["vseed"]], "open"], True
        return
    base = [case["level"], case["lines"], case["pixels"], case["rpc"], case["vseed"], case.get("prior_open"), case.get("copy"), bool(case.get("create_cache"))]
    n_groups = math.ceil(case["lines"] / min(case["rpc"], case["lines"]))
    yield [base, "open"], True
    for ops in case["selections"]:
        yield [base, ops], n_groups >= 2


def group_extent(g, rpc, lines, reclen):
    start = 720 + g * rpc * reclen
    end = 720 + min((g + 1) * rpc, lines) * reclen
    return start, end


def check_open_events(events, images, sizes, rpc_req, out):
    for name, (lines, reclen) in images.items():
        reads = [e for e in events if e[0] == "read" and e[1].endswith(name) and e[4] > 0]
        beyond = [e for e in reads if e[3] + e[4] > 720]
        rpc = rpc_req
        limit = math.ceil(lines / rpc)
        if len(beyond) > limit:
            out.append(harness.disc("too-many-open-reads", "open_alos2", f"<= {limit} reads of line records", len(beyond), image=name))
        last_end = 720
        for e in beyond:
            pos, size = e[3], e[4]
            if pos < last_end and pos + size > 720:
                if pos < last_end and e is not beyond[0] or (e is beyond[0] and pos < 720 and pos + size > 720 and pos != 0):
                    out.append(harness.disc("open-reads-not-sequential", "open_alos2", f"offset >= {last_end}", pos, image=name))
                    break
            if pos + size > sizes[name]:
                out.append(harness.disc("read-outside-file", "open_alos2", f"<= {sizes[name]}", pos + size, image=name))
                break
            last_end = max(last_end, pos + size)
        cats = [e for e in events if e[0] == "cat_file" and e[1].endswith(name) and (e[2] is None or e[3] is None)]
        if cats and lines > rpc:
            out.append(harness.disc("whole-image-fetched", "open_alos2", "chunked reads", cats[:2], image=name))


NOTES = __import__("collections").Counter()


def lazy_control(grid):
    """the row-id grid behind a trivially correct lazily indexed BASIC backend"""
    import xarray as xr
    from xarray.backends import BackendArray
    from xarray.core import indexing

    arr = np.asarray(grid.values)

    class Control(BackendArray):
        def __init__(self):
            self.shape = arr.shape
            self.dtype = arr.dtype

        def __getitem__(self, key):
            return indexing.explicit_indexing_adapter(key, self.shape, indexing.IndexingSupport.BASIC, lambda k: arr[k])

    return xr.DataArray(xr.Variable(grid.dims, indexing.LazilyIndexedArray(Control())), coords=grid.coords)


def run_case(case):
    if case.get("wide"):
        return run_wide(case)
    import xarray as xr

    images = [{"lines": case["lines"], "pixels": case["pixels"]}]
    if case["second_image"]:
        images.append({"lines": 3, "pixels": 2})
    spec = common.spec_from({"level": case["level"], "images": images, "vseed": case["vseed"]})
    files, info = product.build_product(spec)
    out = []
    with harness.Materialised(files, "vtrace") as prod:
        import ceos_alos2

        options = {"use_cache": False, "records_per_chunk": case["rpc"]}
        if case.get("create_cache"):
            options["create_cache"] = True
        if case.get("prior_open") == "same-options-object":
            harness.guard(ceos_alos2.open_alos2, prod.url, backend_options=options)
        elif case.get("prior_open") == "other-rpc":
            harness.guard(harness.open_tree, prod.url, use_cache=False, records_per_chunk=case["rpc"] % 7 + 1)
        vtrace.STORE.clear()
        # (reads that the library hands to helper threads are not served in submission order)
        vtrace.STORE.delay_foreign_reads = 0.05
        try:
            tree, err = harness.guard(ceos_alos2.open_alos2, prod.url, backend_options=options)
        finally:
            vtrace.STORE.delay_foreign_reads = 0
        events = vtrace.STORE.snapshot()
        if case.get("create_cache"):
            common.drop_user_cache(prod.url, info["names"]["sar_imagery"])
        if err is not None:
            return [harness.disc("exception", "open_alos2", "a tree", harness.exc_text(err))]
        geoms = {i["name"]: (i["lines"], i["reclen"]) for i in info["images"]}
        sizes = {i["name"]: len(files[i["name"]]) for i in info["images"]}
        check_open_events(events, geoms, sizes, case["rpc"], out)
        iinfo = info["images"][0]
        name = iinfo["name"]
        lines, reclen = iinfo["lines"], iinfo["reclen"]
        rpc = min(case["rpc"], lines)
        n_groups = math.ceil(lines / rpc)
        if case.get("copy"):
            import copy as copy_module
            import pickle

            copier = {"pickle": lambda t: pickle.loads(pickle.dumps(t)), "deepcopy": lambda t: t.copy(deep=True),
                      "dataset-deepcopy": lambda t: xr.DataTree.from_dict({"/imagery/HH": copy_module.deepcopy(t["imagery/HH"].to_dataset())})}[case["copy"]]
            vtrace.STORE.clear()
            tree, err = harness.guard(copier, tree)
            if err is not None:
                return out + [harness.disc("exception", f"{case['copy']} of the tree", "a copy", harness.exc_text(err))]
            touched = [e for e in vtrace.STORE.snapshot() if e[0] in ("read", "cat_file") and e[1].endswith(name)]
            if touched:
                out.append(harness.disc("read-outside-span", f"{case['copy']} of the tree", "copying a lazily loaded tree reads no line records", touched[:2]))
        da = tree["imagery/HH"]["data"]
        grid = xr.DataArray(
            np.repeat(np.arange(lines)[:, None], case["pixels"], axis=1), dims=da.dims,
            coords={k: v for k, v in da.coords.items()},
        ).assign_coords(vf_rowid=("rows", np.arange(lines)))
        control = lazy_control(grid)
        for ops in case["selections"]:
            # the selected line span, independent of what happens on the pixel axis
            sel_rows, err = harness.guard(lambda: np.atleast_1d(np.asarray(c02.run_ops(grid, ops).coords["vf_rowid"].values)))
            if err is not None:
                continue  # not a selection xarray accepts in memory
            # domain guard (as in C02): on a trivially correct lazily indexed backend xarray must
            # produce what it produces in memory; otherwise the rows it asks the backend for are
            # xarray's own doing (e.g. isel(rows=slice(-2, None, -1)) on a one-line image is empty
            # in memory but xarray's lazy decomposition requests line 0 from ANY backend)
            ctl, err = harness.guard(lambda: np.asarray(c02.run_ops(control, ops).values))
            mem = np.asarray(c02.run_ops(grid, ops).values)
            if err is not None or ctl.shape != mem.shape or not np.array_equal(ctl, mem):
                NOTES["out-of-domain:xarray-limited"] += 1
                continue
            vtrace.STORE.clear()
            _, err = harness.guard(lambda: np.asarray(c02.run_ops(da, ops).values))
            events = vtrace.STORE.snapshot()
            if err is not None:
                continue  # C02's business
            expr = c02.expr_text(ops)
            foreign = [e for e in events if e[0] in ("open", "read", "cat_file", "open-missing") and not e[1].endswith(name)]
            if foreign:
                out.append(harness.disc("other-file-touched", "load", f"only {name}", foreign[:2], expr=expr))
            reads = [e for e in events if e[0] == "read" and e[1].endswith(name) and e[4] > 0]
            # a ranged cat_file is a read request like any other; only an unbounded one fetches the file
            for e in events:
                if e[0] == "cat_file" and e[1].endswith(name):
                    if e[2] is None or e[3] is None:
                        out.append(harness.disc("whole-image-fetched", "load", "one read per group", e, expr=expr))
                    else:
                        reads.append(("read", e[1], None, e[2], e[3] - e[2], e[3] - e[2]))
            if sel_rows.size == 0:
                if reads:
                    out.append(harness.disc("read-outside-span", "load", "no read for an empty selection", reads[:2], expr=expr))
                continue
            lo, hi = int(sel_rows.min()), int(sel_rows.max())
            allowed = set(range(lo // rpc, hi // rpc + 1))
            seen = {}
            for e in reads:
                pos, size = e[3], e[4]
                if pos < 0 or pos + size > sizes[name]:
                    out.append(harness.disc("read-outside-file", "load", f"within [0, {sizes[name]})", (pos, size), expr=expr))
                    continue
                if pos < 720:
                    out.append(harness.disc("descriptor-reread", "load", "no read of the descriptor", (pos, size), expr=expr))
                    continue
                g = (pos - 720) // (rpc * reclen)
                start, end = group_extent(g, rpc, lines, reclen)
                if not (start <= pos and pos + size <= end):
                    out.append(harness.disc("read-spans-groups", "load", f"inside group {g} [{start},{end})", (pos, size), expr=expr, rpc=rpc))
                if g not in allowed:
                    out.append(harness.disc("read-outside-span", "load", f"groups {sorted(allowed)}", g, expr=expr, rows=[lo, hi], rpc=rpc))
                seen[g] = seen.get(g, 0) + 1
            dup = {g: n for g, n in seen.items() if n > 1}
            if dup:
                out.append(harness.disc("several-reads-per-group", "load", "at most one read per group", dup, expr=expr, rpc=rpc))
            if len(reads) > n_groups:
                out.append(harness.disc("several-reads-per-group", "load", f"<= {n_groups} reads", len(reads), expr=expr))
    return out


LEVEL_TEXT = (
    "Invariant checking over recorded I/O events: an instrumented fsspec filesystem logs every "
    "request issued while opening products and loading generated selections; the log is judged "
    "against the grouping / bounding rules the property states."
)
LEVEL_NOTE = "Trusted: vtrace (vf/vtrace.py) hands out unbuffered file objects and logs each read with its true offset."
TECHNIQUE = "Hypothesis-generated selections on an instrumented filesystem; invariant oracle over the recorded open/seek/read events"
