"""C19 Concurrent reads are safe: parallel loads equal sequential loads."""

import functools
import pickle
import threading
import time

import numpy as np
from hypothesis import strategies as st

from vf import harness, vtrace
from vf.ceosgen import product
from vf.props import common

ID = "C19"
LEVEL = "exploration"
RULE = (
    "Schedules of 2-3 concurrent loads on one opened tree served by vtrace://. The harness owns "
    "the schedule: every filesystem operation (open / seek / read / readinto / close; a read is two "
    "yield points: before it takes effect and after the data has been delivered) and every acquisition "
    "of xarray's SerializableLock is a yield point of a deterministic cooperative scheduler that "
    "lets exactly one thread run and takes the next thread from the generated schedule (a thread "
    "waiting for a held lock is not runnable; 'unfinished threads, none runnable' = deadlock). "
    "Scenarios: same variable x2 / x3, different variables (of different and of identical "
    "geometry), original + pickled copy, pickled copies only, original + copy of a tree that was pickled before its first read; each thread loads a generated selection. Quick: Hypothesis-drawn schedules "
    "(lists of choices) plus a bounded depth-first enumeration; thorough: depth-first "
    "enumeration of ALL distinct interleavings for every 2-thread scenario and a bounded set for "
    "3 threads. Oracle: every thread's array is bit-equal to the single-threaded result, all "
    "threads finish, no deadlock, no exception. Stage 'forked-workers': after this process has been loading (not at all / one thread / two threads) it forks a worker that unpickles a copy of the tree and loads each selection from it; the worker must answer with the sequential values (72 cases). Non-trivial: the trace has a context switch "
    "between some thread's seek and its read, or between two threads contending for one lock."
)
ASSUMPTIONS = [
    "interleavings are explored at the harness's yield points only (pre-emption inside NumPy / pure Python sections is not)",
    "the lock object the library attaches to a lazily indexed image variable is wrapped by a cooperative proxy in the harness process (no repo change); two proxies are the same lock iff the real lock underneath is the same object",
]
BUDGET = {"quick": 120, "thorough": 1800}
JOBS = {"quick": 4, "thorough": 16}

SELECTIONS = [
    {"rows": ("slice", None, None, None)},
    {"rows": ("slice", 0, 3, None)},
    {"rows": ("slice", 2, None, None)},
    {"rows": ("int", 1)},
    {"rows": ("slice", None, None, -2)},
    {"rows": ("list", [4, 0])},
]
SCENARIOS = ["same-var-2", "same-var-3", "different-vars", "pickled+original", "pickled-only", "mixed-3",
             "same-geometry-vars", "same-geometry-pickled",
             # the same on a filesystem that hands out one shared file object per path (memory://)
             "same-var-2@shared", "pickled+original@shared", "pickled-only@shared", "mixed-3@shared",
             "unpickle-while-loading", "unpickle-while-loading@shared",
             "pickled-early", "pickled-early@shared", "pickled-early-3@shared"]


class SchedulerAbort(BaseException):
    pass


class HarnessTimeout(RuntimeError):
    pass


class Scheduler:
    """deterministic cooperative scheduler over explicit yield points"""

    def __init__(self, schedule, n_threads):
        self.schedule = list(schedule)
        self.cv = threading.Condition()
        self.state = {t: "starting" for t in range(n_threads)}
        self.need = {}
        self.event = {}
        self.go = {t: threading.Event() for t in range(n_threads)}
        self.owner = {}  # lock token -> tid
        self.local = threading.local()
        self.trace = []
        self.branching = []
        self.choices = []
        self.abort = False
        self.deadlock = False

    def tid(self):
        return getattr(self.local, "tid", None)

    def yield_point(self, event, need=None):
        tid = self.tid()
        if tid is None:
            return
        with self.cv:
            self.state[tid] = "waiting"
            self.need[tid] = need
            self.event[tid] = event
            self.cv.notify_all()
        self.go[tid].wait()
        self.go[tid].clear()
        if self.abort:
            raise SchedulerAbort()

    def release(self, token):
        tid = self.tid()
        if tid is None:
            return
        with self.cv:
            if self.owner.get(token) == tid:
                del self.owner[token]

    def finished(self, tid):
        with self.cv:
            self.state[tid] = "done"
            self.cv.notify_all()

    def settled(self):
        return all(s in ("waiting", "done") for s in self.state.values())

    def run(self):
        step = 0
        while True:
            with self.cv:
                if not self.cv.wait_for(self.settled, timeout=20):
                    self.abort = True
                    for ev in self.go.values():
                        ev.set()
                    raise HarnessTimeout(f"a thread is blocked outside the harness's yield points: {self.state}")
                waiting = sorted(t for t, s in self.state.items() if s == "waiting")
                if not waiting:
                    return
                runnable = [t for t in waiting if self.need[t] is None or self.need[t] not in self.owner]
                if not runnable:
                    self.deadlock = True
                    self.abort = True
                    for ev in self.go.values():
                        ev.set()
                    return
                if len(runnable) > 1:
                    k = self.schedule[len(self.choices)] if len(self.choices) < len(self.schedule) else 0
                    k %= len(runnable)
                    self.choices.append(k)
                    self.branching.append(len(runnable))
                else:
                    k = 0
                chosen = runnable[k]
                if self.need[chosen] is not None:
                    self.owner[self.need[chosen]] = chosen
                self.trace.append((chosen, self.event[chosen][0], self.need[chosen] is not None))
                self.state[chosen] = "running"
                self.go[chosen].set()
            step += 1
            if step > 5000:
                self.abort = True
                for ev in self.go.values():
                    ev.set()
                raise HarnessTimeout("more than 5000 scheduling steps")


ACTIVE = {"sched": None}


class CoopLock:
    """cooperative stand-in for whatever lock object the library attached to a lazily indexed image
    variable (xarray's SerializableLock today).  While a scheduler is active, acquiring is a yield
    point and the scheduler decides who gets the lock; two CoopLocks stand for the same lock iff
    the real locks underneath are the same object (a pickled copy of a SerializableLock shares
    its lock through the token registry)."""

    def __init__(self, real):
        self.real = real
        self.primitive = getattr(real, "lock", real)
        self.key = id(self.primitive)

    def _managed(self):
        s = ACTIVE["sched"]
        return s if s is not None and s.tid() is not None else None

    def _take(self):
        # the scheduler only grants a lock its model says is free; if the real lock is still
        # held, an earlier load did not release it
        if not self.primitive.acquire(blocking=False):
            raise RuntimeError("lock still held after an earlier load finished (never released)")
        return True

    def acquire(self, *args, **kwargs):
        s = self._managed()
        if s is None:
            return self.real.acquire(*args, **kwargs)
        s.yield_point(("lock", self.key), need=self.key)
        return self._take()

    def release(self, *args, **kwargs):
        s = self._managed()
        if s is None:
            return self.real.release(*args, **kwargs)
        self.primitive.release()
        s.release(self.key)

    def __enter__(self):
        self.acquire()
        return self

    def __exit__(self, *exc):
        self.release()

    def locked(self):
        return self.primitive.locked()


def install_cooperative_locks(tree):
    """replace the lock of every lazily indexed image variable of the tree by a CoopLock"""
    found = 0
    for node in tree.subtree:
        for var in node.to_dataset(inherit=False).variables.values():
            obj, seen = getattr(var, "_data", None), 0
            while obj is not None and seen < 8:
                lock = getattr(obj, "lock", None)
                if lock is not None and hasattr(lock, "acquire") and not isinstance(lock, CoopLock):
                    obj.lock = CoopLock(lock)
                    found += 1
                    break
                obj, seen = getattr(obj, "array", None), seen + 1
    return found


BLOBS = {}


@functools.lru_cache(maxsize=None)
def world(shared=False):
    # HH and VH have the same geometry (same record length, same chunk byte sizes), HV differs
    spec = common.spec_from({"level": "1.5", "images": [{"lines": 5, "pixels": 3}, {"lines": 5, "pixels": 2}, {"lines": 5, "pixels": 3}], "vseed": 19})
    files, info = product.build_product(spec)
    prod = harness.Materialised(files, "vtrace").__enter__()
    if shared:
        # one shared file object per path, as fsspec's memory filesystem hands out
        vtrace.STORE.shared_products.add(prod.name)
    tree, _ = harness.reference_open(prod.url, use_cache=False, records_per_chunk=2)
    try:
        BLOBS[shared] = pickle.dumps(tree)  # before the cooperative proxies go in
        copy = pickle.loads(BLOBS[shared])
    except Exception as e:  # noqa: BLE001
        # "from pickled copies of the tree": a tree that has been loaded from once must still pickle
        raise harness.SetupViolation(harness.disc("tree-not-picklable", "pickle round trip of an opened tree (after a full load)", "a copy", harness.exc_text(e)))
    NOTES[f"cooperative-locks-installed={install_cooperative_locks(tree) + install_cooperative_locks(copy)}"] += 0
    return tree, copy


@functools.lru_cache(maxsize=None)
def world_pickled_early(shared=False):
    """a tree that is pickled BEFORE anything has been read from it (what a scheduler does that
    ships the opened tree to its workers right away); both the original and the copy then do one
    small warm-up read, and only then are their locks made cooperative - so whatever locking the
    library sets up lazily, at the first read, is in place and is what the scheduler sees"""
    spec = common.spec_from({"level": "1.5", "images": [{"lines": 5, "pixels": 3}, {"lines": 5, "pixels": 2}, {"lines": 5, "pixels": 3}], "vseed": 19})
    files, info = product.build_product(spec)
    prod = harness.Materialised(files, "vtrace").__enter__()
    if shared:
        vtrace.STORE.shared_products.add(prod.name)
    tree, err = harness.guard(harness.open_tree, prod.url, use_cache=False, records_per_chunk=2)
    if err is not None:
        raise harness.SetupViolation(harness.disc("exception", "open_alos2", "a tree", harness.exc_text(err)))
    try:
        copy = pickle.loads(pickle.dumps(tree))
    except Exception as e:  # noqa: BLE001
        raise harness.SetupViolation(harness.disc("tree-not-picklable", "pickle round trip of a freshly opened tree", "a copy", harness.exc_text(e)))
    for t in (tree, copy):
        for group in ("HH", "HV", "VH"):
            np.asarray(t[f"imagery/{group}"]["data"].isel(rows=0).values)
    install_cooperative_locks(tree)
    install_cooperative_locks(copy)
    return tree, copy


def to_sel(sel):
    kind, *rest = sel["rows"]
    if kind == "slice":
        return {"rows": slice(*rest)}
    if kind == "int":
        return {"rows": rest[0]}
    return {"rows": list(rest[0])}


def is_shared(scenario):
    return scenario.endswith("@shared")


def actors(scenario):
    """[(which tree, image group)] per thread"""
    scenario = scenario.split("@")[0]
    return {
        "same-var-2": [("tree", "HH"), ("tree", "HH")],
        "same-var-3": [("tree", "HH"), ("tree", "HH"), ("tree", "HH")],
        "different-vars": [("tree", "HH"), ("tree", "HV")],
        "pickled+original": [("tree", "HH"), ("copy", "HH")],
        "pickled-only": [("copy", "HV"), ("copy", "HV")],
        "mixed-3": [("tree", "HH"), ("copy", "HH"), ("tree", "HV")],
        # two different images whose records and chunks have identical byte sizes
        "same-geometry-vars": [("tree", "HH"), ("tree", "VH")],
        "same-geometry-pickled": [("tree", "HH"), ("copy", "VH")],
        # a thread that first unpickles a copy of the tree and then loads from it
        "unpickle-while-loading": [("tree", "HH"), ("fresh-copy", "HH")],
        # original and copy of a tree that was pickled before its first read
        "pickled-early": [("early-tree", "HH"), ("early-copy", "HH")],
        "pickled-early-3": [("early-tree", "HH"), ("early-copy", "HH"), ("early-copy", "VH")],
    }[scenario]


@functools.lru_cache(maxsize=None)
def sequential(which, group, sel_index, shared=False):
    """single-threaded reference (also run under the scheduler, so a load that never returns is seen)"""
    results, errors, sched = run_threads([(which, group)], [sel_index], [], shared)
    if errors or sched.deadlock:
        return ("error", errors.get(0, "deadlock in a single-threaded load"))
    return results[0]


def run_threads(acts, sels, schedule, shared=False):
    tree, copy = world(shared)
    sched = Scheduler(schedule, len(acts))
    results, errors = {}, {}

    def body(tid, which, group, sel_index):
        sched.local.tid = tid
        try:
            sched.yield_point(("start",))
            if which == "fresh-copy":
                # this thread unpickles its own copy of the tree while the others are loading
                # (whatever unpickling does to shared files happens in the middle of their reads)
                t = pickle.loads(BLOBS[shared])
                install_cooperative_locks(t)
            elif which.startswith("early-"):
                t = world_pickled_early(shared)[0 if which == "early-tree" else 1]
            else:
                t = tree if which == "tree" else copy
            results[tid] = np.asarray(t[f"imagery/{group}"]["data"].isel(**to_sel(SELECTIONS[sel_index])).values)
        except SchedulerAbort:
            errors[tid] = "aborted"
        except Exception as e:  # noqa: BLE001
            errors[tid] = harness.exc_text(e)
        finally:
            sched.finished(tid)

    threads = [threading.Thread(target=body, args=(i, w, g, s), daemon=True) for i, ((w, g), s) in enumerate(zip(acts, sels))]
    ACTIVE["sched"] = sched
    vtrace.STORE.hook = lambda event: sched.yield_point(event)
    vtrace.STORE.recording = False
    try:
        for t in threads:
            t.start()
        sched.run()
        for t in threads:
            t.join(timeout=20)
            if t.is_alive():
                raise HarnessTimeout("thread did not finish after the scheduler ended")
    finally:
        vtrace.STORE.hook = None
        vtrace.STORE.recording = True
        ACTIVE["sched"] = None
    return results, errors, sched


def execute(scenario, sels, schedule):
    """run one schedule; returns (discrepancies, scheduler)"""
    acts = actors(scenario)
    shared = is_shared(scenario)
    refs = [sequential(w, g, s, shared) for (w, g), s in zip(acts, sels)]
    results, errors, sched = run_threads(acts, sels, schedule, shared)
    out = []
    ctx = {"choices": list(sched.choices), "scenario": scenario}
    for tid, ref in enumerate(refs):
        if isinstance(ref, tuple) and ref and ref[0] == "error":
            out.append(harness.disc("sequential-load-fails", "single-threaded load", "values", ref[1], thread=tid, **ctx))
    if out:
        return out, sched
    if sched.deadlock:
        out.append(harness.disc("deadlock", "concurrent loads", "all threads finish", f"no runnable thread; lock owners {sched.owner}", **ctx))
        return out, sched
    for tid, ref in enumerate(refs):
        if tid in errors:
            out.append(harness.disc("exception-in-thread", "concurrent loads", "values", errors[tid], thread=tid, **ctx))
        elif tid not in results:
            out.append(harness.disc("thread-unfinished", "concurrent loads", "values", None, thread=tid, **ctx))
        elif not harness.array_bytes_equal(results[tid], ref):
            out.append(harness.disc("wrong-values", "concurrent loads", ref, results[tid], thread=tid, **ctx))
    return out, sched


def trace_nontrivial(trace):
    """a context switch between a seek and the same thread's read, or lock contention"""
    pending = {}
    for tid, ev, lock in trace:
        for other, waiting in list(pending.items()):
            if other != tid and waiting:
                return True
        if ev == "seek":
            pending[tid] = True
        elif ev in ("read", "close"):
            pending[tid] = False
    return False


COUNTS = {}


def run_fault_case(case):
    """a load that fails with a transient I/O error must leave the variable usable: the loads
    that follow (same thread, other threads, pickled copy) finish and return the right values"""
    acts = actors(case["scenario"])
    shared = is_shared(case["scenario"])
    refs = [sequential(w, g, s, shared) for (w, g), s in zip(acts, case["sels"])]
    vtrace.STORE.fail_reads = 1
    try:
        results, errors, sched = run_threads(acts[:1], case["sels"][:1], [], shared)
    finally:
        vtrace.STORE.fail_reads = 0
    out = []
    ctx = {"scenario": case["scenario"], "after": "a load that failed with an injected OSError"}
    if 0 not in errors:
        out.append(harness.disc("io-error-swallowed", "load with a failing read", "the OSError is raised", "values returned", **ctx))
    results, errors, sched = run_threads(acts, case["sels"], case["schedule"], shared)
    if sched.deadlock:
        return out + [harness.disc("deadlock", "loads after a failed load", "all threads finish", f"no runnable thread; lock owners {sched.owner}", **ctx)]
    for tid, ref in enumerate(refs):
        if tid in errors:
            out.append(harness.disc("exception-in-thread", "loads after a failed load", "values", errors[tid], thread=tid, **ctx))
        elif tid not in results or not harness.array_bytes_equal(results[tid], ref):
            out.append(harness.disc("wrong-values", "loads after a failed load", "the sequential values", "other values", thread=tid, **ctx))
    return out


def run_fork_case(case):
    """a worker process forked from this one (the default start method of multiprocessing /
    ProcessPoolExecutor on Linux) receives a pickled copy of the tree and loads a selection from
    it - after this process has itself been loading (threads, several chunks per load).  The
    child must come back with the sequential values; a child that never answers is a deadlock."""
    import os
    import select
    import signal

    shared = is_shared(case["scenario"])
    group = case["group"]
    ref = sequential("copy", group, case["sel"], shared)
    if case["parent_activity"] == "threads":
        acts = actors("same-var-2")
        run_threads(acts, [0, 0], [0, 1, 0, 1, 1, 0], shared)
    elif case["parent_activity"] == "load":
        sequential("tree", group, 0, shared)
        run_threads([("tree", group)], [0], [], shared)
    blob = BLOBS[shared]
    r, w = os.pipe()
    pid = os.fork()
    if pid == 0:
        # child: no scheduler thread identity here, so vtrace's yield points are inert
        code = 0
        try:
            os.close(r)
            t = pickle.loads(blob)
            v = np.asarray(t[f"imagery/{group}"]["data"].isel(**to_sel(SELECTIONS[case["sel"]])).values)
            payload = pickle.dumps(("ok", v))
        except BaseException as e:  # noqa: BLE001 - reported to the parent
            payload = pickle.dumps(("error", harness.exc_text(e)))
            code = 1
        try:
            with os.fdopen(w, "wb") as f:
                f.write(payload)
        finally:
            os._exit(code)
    os.close(w)
    ctx = {"scenario": case["scenario"], "parent_activity": case["parent_activity"]}
    chunks = []
    deadline = 45.0
    import time

    start = time.monotonic()
    done = False
    with os.fdopen(r, "rb") as f:
        while time.monotonic() - start < deadline:
            ready, _, _ = select.select([f], [], [], 0.5)
            if ready:
                piece = os.read(f.fileno(), 1 << 20)
                if not piece:
                    done = True
                    break
                chunks.append(piece)
    if not done:
        os.kill(pid, signal.SIGKILL)
        os.waitpid(pid, 0)
        return [harness.disc("deadlock", "load from a pickled copy in a forked worker process", "the values", f"no answer within {deadline:.0f} s", **ctx)]
    os.waitpid(pid, 0)
    try:
        status, value = pickle.loads(b"".join(chunks))
    except Exception as e:  # noqa: BLE001
        return [harness.disc("exception-in-thread", "forked worker process", "values", f"no result ({harness.exc_text(e)})", **ctx)]
    if status != "ok":
        return [harness.disc("exception-in-thread", "load from a pickled copy in a forked worker process", "values", value, **ctx)]
    if isinstance(ref, tuple) or not harness.array_bytes_equal(value, ref):
        return [harness.disc("wrong-values", "load from a pickled copy in a forked worker process", "the sequential values", "other values", **ctx)]
    return []


def fork_cases():
    for scenario in ("forked-worker", "forked-worker@shared"):
        for activity in ("none", "load", "threads"):
            for group in ("HH", "HV"):
                for sel in range(len(SELECTIONS)):
                    yield {"mode": "fork", "scenario": scenario, "parent_activity": activity, "group": group, "sel": sel}


def run_case(case):
    key = harness.case_hash(case)
    if case["mode"] == "fork":
        COUNTS[key] = [((case["parent_activity"], case["group"], case["sel"]), case["parent_activity"] != "none")]
        return run_fork_case(case)
    if case["mode"] == "fault":
        COUNTS[key] = [((), True)]
        return run_fault_case(case)
    if case["mode"] == "schedule":
        out, sched = execute(case["scenario"], case["sels"], case["schedule"])
        COUNTS[key] = [(tuple(sched.choices), trace_nontrivial(sched.trace))]
        return out
    # depth-first enumeration of all interleavings whose first decisions equal the prefix
    out, units = [], []
    prefix = list(case["prefix"])
    choices = list(prefix)
    limit = case["limit"]
    complete = True
    realisable = True
    while True:
        discs, sched = execute(case["scenario"], case["sels"], choices)
        br, ch = sched.branching, sched.choices
        if len(ch) < len(prefix) or any(p >= b for p, b in zip(prefix, br)):
            realisable = False  # this shard duplicates another one (fewer options than the prefix value)
            break
        units.append((tuple(ch), trace_nontrivial(sched.trace)))
        if discs and not out:
            out.extend(discs)
        # backtrack: deepest decision beyond the prefix that still has an unexplored alternative
        i = len(ch) - 1
        while i >= len(prefix) and ch[i] + 1 >= br[i]:
            i -= 1
        if i < len(prefix):
            break
        choices = ch[:i] + [ch[i] + 1]
        if len(units) >= limit:
            complete = False
            break
    COUNTS[key] = units if realisable else []
    if realisable:
        NOTES["dfs-complete" if complete else "inexhaustive:dfs-truncated"] += 1
    return out if realisable else []


NOTES = __import__("collections").Counter()


def sub_units(case):
    key = harness.case_hash(case)
    for choices, nontrivial in COUNTS.pop(key, []):
        yield [case["scenario"], case.get("sels"), list(choices)], nontrivial


def dfs_cases(tier):
    q = tier == "quick"
    for scenario in SCENARIOS:
        n = len(actors(scenario))
        if n == 2:
            sel_sets = [[3, 3]] if q else [[3, 3], [1, 3], [5, 4]]
            limit = 400 if q else 6000
        else:
            sel_sets = [[3, 3, 3]] if q else [[3, 3, 3], [1, 3, 5]]
            limit = 80 if q else 900
        for sels in sel_sets:
            for a in range(n):
                for b in range(n):
                    yield {"mode": "dfs", "scenario": scenario, "sels": sels, "prefix": [a, b], "limit": limit}
        for k, sels in enumerate(sel_sets[:2]):
            yield {"mode": "fault", "scenario": scenario, "sels": sels, "schedule": [k, 1, 0, 1, 1, 0]}


@st.composite
def schedule_cases(draw):
    scenario = draw(st.sampled_from(SCENARIOS))
    n = len(actors(scenario))
    return {
        "mode": "schedule",
        "scenario": scenario,
        "sels": [draw(st.integers(0, len(SELECTIONS) - 1)) for _ in range(n)],
        "schedule": draw(st.lists(st.integers(0, 2), min_size=0, max_size=40)),
    }


def plan(tier):
    return [
        {"kind": "enum", "name": "dfs-interleavings", "cases": lambda: dfs_cases(tier), "exhaustive": tier == "thorough"},
        {"kind": "enum", "name": "forked-workers", "cases": fork_cases, "exhaustive": False},
        {"kind": "hyp", "name": "random-schedules", "strategy": schedule_cases(), "examples": 400 if tier == "quick" else 20000},
    ]


def classify(case):
    return True, [f"scenario={case['scenario']}", f"mode={case['mode']}"]


LEVEL_TEXT = (
    "Schedule exploration with a deterministic scheduler that owns every filesystem operation "
    "and lock acquisition: all distinct interleavings of the 2-thread scenarios (thorough) and "
    "bounded sets for 3 threads, plus generated schedules; oracle = sequential results, "
    "completion, absence of deadlock."
)
LEVEL_NOTE = "Trusted: the scheduler (vf/props/c19.py) and vtrace's yield points; exploration granularity = filesystem operations and lock acquisitions."
TECHNIQUE = "deterministic cooperative scheduler over filesystem/lock yield points; DFS enumeration of interleavings + Hypothesis schedules + forked workers on pickled copies; sequential-equivalence oracle"
