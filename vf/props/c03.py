"""C03 Per-line and header image metadata equal what each file record encodes."""

from hypothesis import strategies as st

from vf import harness
from vf.ceosgen import model, product
from vf.props import common

ID = "C03"
LEVEL = "exploration"
RULE = (
    "Hypothesis draws {level (both record types), 1-2 images, 1..40 lines, which optional header "
    "fields are blank, enum cycle (every code of every enumerated field is reached by cycling), "
    "reference instant incl. leap years / day 366 / last millisecond, rpc, filler policy, value "
    "seed}; every prefix field of every line gets a generated value (32/64-bit from {0,1,max, "
    "random}, flags 0/1/large, per-file constants constant over the lines, strictly increasing "
    "line numbers). Oracle: hand-stated model on the frozen record layouts: one entry per line in "
    "file order, value x factor (rel 1e-12), units attribute, constants once as group attrs with "
    "the enum label, header attrs present iff the field is non-blank; missing and unexpected "
    "leaves are discrepancies. Non-trivial: >= 2 lines."
    " One case in four is judged on the tree returned by an open that also writes the index cache. Stage 'in-place-pairs': two products with the same file names at the same root, one after the other, both judged. A fifth of the cases inject a transient I/O error (the 1st..4th read of an image file fails once with OSError during the open): the open may fail, a returned tree is complete. Three cases in five run with the process time zone set away from UTC. Half of the two-image products list their images in non-alphabetical order of polarisation."
)
ASSUMPTIONS = [
    "layout tables for the image descriptor and both line records (frozen)",
    "blank interleaving_id: both 'absent' (C03) and '' (C20) are accepted",
    "level-1.1 nested sub-structs are located in the D8 shape or by content",
]
BUDGET = {"quick": 120, "thorough": 1500}
JOBS = {"quick": 4, "thorough": 16}


@st.composite
def cases(draw):
    level = draw(st.sampled_from(["1.1", "1.5", "3.1"]))
    images = []
    for _ in range(draw(st.integers(1, 2))):
        im = {"lines": draw(st.one_of(st.integers(1, 40), st.integers(1, 6))), "pixels": draw(st.integers(1, 3))}
        blank = draw(st.lists(st.sampled_from(product.HEADER_OPTIONAL), unique=True, max_size=5))
        if blank:
            im["blank_header"] = sorted(blank)
        if draw(st.booleans()):
            im["random_times"] = True
        if draw(st.integers(0, 3)) == 0:
            im["drift"] = draw(st.integers(0, 10**6))  # slowly varying columns
        if draw(st.integers(0, 3)) == 0:
            im["cross_midnight"] = draw(st.sampled_from([True, True, "overflow"]))
        if draw(st.integers(0, 4)) == 0:
            # line numbers are labels, not positions: they may start again or be unset (0)
            im["line_numbers"] = draw(st.sampled_from(["restart", "zeros"]))
        images.append(im)
    if len(images) == 2 and draw(st.booleans()):
        # the summary numbers the image files in another order than the alphabetical one
        images[0]["pol"], images[1]["pol"] = draw(st.sampled_from([("HV", "HH"), ("VV", "VH"), ("VH", "HV")]))
    return {
        "level": level,
        "images": images,
        "instant": draw(common.instants()),
        "enum_cycle": draw(st.one_of(st.integers(0, 11), st.integers(0, 11), st.none())),  # None: random codes, some outside the tables
        "rpc": draw(st.sampled_from([1, 2, 3, 7, 1024])),
        # the judged tree is the one returned by an open that also writes the index cache
        "create_cache": draw(st.sampled_from([False, False, False, True])),
        # ... and the tree read back through that cache is judged too
        "via_cache": draw(st.booleans()),
        # the n-th read of the first image file fails once with OSError during the open (None: no fault)
        "io_error": draw(st.sampled_from([None, None, None, None, None, 1, 2, 3, 4])),
        # time zone of the process (POSIX TZ strings); the files carry UTC instants
        "tz": draw(st.sampled_from([None, None, "PST8", "JST-9", "NPT-5:45"])),
        "policy": draw(st.sampled_from(["decoy", "decoy", "blank"])),
        "vseed": draw(st.integers(0, 2**32 - 1)),
    }


def plan(tier):
    n = 480 if tier == "quick" else 32000
    return [{"kind": "hyp", "name": "images", "strategy": cases(), "examples": n},
            {"kind": "hyp", "name": "in-place-pairs", "strategy": common.in_place_pairs(cases(), stale_index=True), "examples": max(60, n // 10)}]


def classify(case):
    labels = [f"level={case['level']}", f"enum_cycle={case['enum_cycle'] % 6 if case['enum_cycle'] is not None else 'random+unknown'}"]
    if any(im.get("blank_header") for im in case["images"]):
        labels.append("blank-header")
    if case.get("create_cache"):
        labels.append("create_cache")
    elif case.get("io_error"):
        labels.append("transient-read-error")
    labels.append(f"tz={case.get('tz')}")
    inst = case["instant"]
    if inst["doy"] in (60, 366) or inst["ms"] == 86_399_999:
        labels.append("calendar-boundary")
    return any(im["lines"] >= 2 for im in case["images"]), labels


def run_case(case):
    with harness.process_tz(case.get("tz")):
        return run_case_in_zone(case)


def run_case_in_zone(case):
    spec = common.spec_from(case)
    files, info = product.build_product(spec)
    out = []
    if case.get("io_error") and not case.get("create_cache") and harness.PAIR_INDEX is None:
        # an open during which one read of an image file fails: it may fail, but a
        # tree that is returned has every line of every image
        with common.open_under_read_fault(files, info["names"]["sar_imagery"][0], case["io_error"], use_cache=False, records_per_chunk=case["rpc"]) as (tree, err, consumed):
            if err is not None:
                return common.judge_fault_error(err, "open_alos2 while a read of an image file fails")
            flat, err = harness.guard(harness.flatten, tree)
            if err is not None:
                return [harness.disc("exception", "flatten", "loadable tree", harness.exc_text(err))]
        for iinfo, gname in zip(info["images"], common.group_names(spec)):
            for d in model.check_image_group(iinfo, gname, flat, harness.disc):
                d.setdefault("context", {})["during"] = "an open in which a read of the image " + ("failed with OSError" if consumed else "was to fail (no such read happened)")
                out.append(d)
        return out
    # a third of the plain cases are served by vtrace:// with "reads handed to helper threads do
    # not arrive in submission order" switched on (no effect on a reader that reads in one thread)
    delayed = not case.get("create_cache") and harness.PAIR_INDEX is None and case["vseed"] % 3 == 0
    with harness.Materialised(files, "vtrace" if delayed else "memory") as prod:
        opts = {"use_cache": False, "records_per_chunk": case["rpc"]}
        if case.get("create_cache"):
            opts["create_cache"] = True
        try:
            if delayed:
                from vf import vtrace

                vtrace.STORE.delay_foreign_reads = 0.03
            try:
                tree, err = harness.guard(harness.open_tree, prod.url, **opts)
            finally:
                if delayed:
                    vtrace.STORE.delay_foreign_reads = 0
            if err is not None:
                return [harness.disc("exception", "open_alos2", "a tree", harness.exc_text(err))]
            flat, err = harness.guard(harness.flatten, tree)
            if err is not None:
                return [harness.disc("exception", "flatten", "loadable tree", harness.exc_text(err))]
            if case.get("create_cache") and case.get("via_cache"):
                cached, err = harness.guard(harness.open_tree, prod.url, records_per_chunk=case["rpc"], use_cache=True)
                if err is not None:
                    return [harness.disc("exception", "open_alos2 through the cache just written", "a tree", harness.exc_text(err))]
                cflat, err = harness.guard(harness.flatten, cached)
                if err is not None:
                    return [harness.disc("exception", "flatten (cached tree)", "a tree", harness.exc_text(err))]
                for iinfo, gname in zip(info["images"], common.group_names(spec)):
                    for d in model.check_image_group(iinfo, gname, cflat, harness.disc):
                        d["where"] = d["where"]
                        d.setdefault("context", {})["through"] = "index cache"
                        out.append(d)
        finally:
            # in an in-place pair the first product's index stays in place for the second one,
            # which is opened with use_cache=False and has to ignore it
            if (case.get("create_cache") and harness.PAIR_INDEX != 0) or harness.PAIR_INDEX == 1:
                common.drop_user_cache(prod.url, info["names"]["sar_imagery"])
    for iinfo, gname in zip(info["images"], common.group_names(spec)):
        out.extend(model.check_image_group(iinfo, gname, flat, harness.disc))
    return out


LEVEL_TEXT = (
    "Model-based testing of the image groups: the independent encoder writes every prefix field "
    "of every line record and the descriptor's optional fields; coords / attrs of the image "
    "groups read by open_alos2 are compared with the model leaf by leaf."
)
LEVEL_NOTE = "Trusted base: frozen record layouts and the hand-stated exposure of line/header fields (vf/ceosgen/model.py)."
TECHNIQUE = "Hypothesis-generated image files via independent encoder; reference-model oracle per line record field"
