"""C09 A crash or concurrent writer during cache creation never poisons later opens."""

import contextlib
import functools
import json
import os
import pathlib
import subprocess
import sys

from hypothesis import strategies as st

from vf import harness
from vf.ceosgen import product
from vf.props import c07, common
from vf.runner import SetupViolation

ID = "C09"
LEVEL = "fault_enumeration"
RULE = (
    "Crash points of the cache write = byte-length prefixes of the index document. For each image "
    "of a level-1.1 and a level-1.5 product and each location (user cache dir, adjacent): quick: "
    "k in {0, 1, len-1, len}, every JSON token boundary of the first 60 tokens, every cut at or inside a non-ASCII character of the document and 60 "
    "Hypothesis-drawn k; thorough: EVERY k in 0..len (bulk through the image reader, every 25th "
    "through open_alos2). Plus real kills: a child process runs open_alos2(create_cache=True) "
    "with a byte-wise writer installed by the harness and SIGKILLs itself at a generated offset "
    "of a generated image (quick 8, thorough 200); plus a live second writer held mid-write on a "
    "pipe while the reader opens; plus two runs of the cache tool at once (one per image, renames held back until both have written); plus both locations torn at once (grid and generated pairs of prefix lengths); plus disk full: the write of one image's index stops after a "
    "generated number of bytes with ENOSPC inside this process (the failing call may raise "
    "OSError; later opens are judged). Oracle after each fault: open_alos2(path) with default options "
    "returns a tree identical to the uncached reference; then create_cache=True succeeds, the "
    "user-dir index file is complete (parses, equals the reference document) and use_cache=True "
    "equals the reference. Stage 'interleaved-opens': two or three opens of one product run as threads under a deterministic scheduler whose yield points are the library's operations on index files (is_file / exists / read / mkdir / unlink / rename / replace; a write is three steps: truncated, first half, complete): a default open interleaved with one or two create_cache=True opens, starting from a complete / absent / torn cache; depth-first enumeration of the interleavings (bounded per shard in quick); the reader must return the reference tree under every interleaving and a later default open too. Non-trivial: 0 < k < len."
)
ASSUMPTIONS = [
    "crash = process death or a still-running writer; power loss (page cache vs disk ordering) cannot be produced here",
    "torn states are byte prefixes of the index document as written (docs[image] re-encoded as UTF-8); the level-1.5 product sits under a non-ASCII path",
]
BUDGET = {"quick": 150, "thorough": 2400}
JOBS = {"quick": 4, "thorough": 16}

LEVELS = ["1.1", "1.5"]
NOTES = __import__("collections").Counter()


@functools.lru_cache(maxsize=None)
def base(level):
    spec = common.spec_from(
        {"level": level,
         "images": [dict({"lines": 4, "pixels": 3}, **({"pol": "HV", "scan": "F1"} if level == "1.1" else {})),
                    dict({"lines": 3, "pixels": 2}, **({"pol": "HV", "scan": "F2"} if level == "1.1" else {}))],
         "vseed": 90 + LEVELS.index(level),
         "leader": {"map_projection": level != "1.1"}}
    )
    files, info = product.build_product(spec)
    # the level-1.5 product lives under a directory with non-ASCII characters (the index stores
    # the product root, so its text - and every torn prefix of it - depends on the path)
    name = None if level == "1.1" else f"sc\u00e8ne-\u30c7\u30fc\u30bf-\u00e9t\u00e9-{os.getpid()}"
    prod = harness.Materialised(files, "local", name=name).__enter__()  # kept for the life of the process
    images = info["names"]["sar_imagery"]
    _, ref = harness.reference_open(prod.url, use_cache=False)
    harness.reference_open(prod.url, "reference open with create_cache=True", use_cache=False, create_cache=True)
    docs = {}
    for image in images:
        p = c07.user_index_path(prod.url, image)
        if not p.is_file():
            found = sorted(q.name for q in p.parent.glob("*")) if p.parent.exists() else []
            raise SetupViolation(harness.disc(
                "cache-not-at-documented-location", "create_cache=True",
                f"<user_cache_dir>/xarray-ceos-alos2/<sha256(root)>/{image}.index", found))
        # one character per BYTE of the file (latin-1 view): lengths and cut positions are bytes
        docs[image] = p.read_bytes().decode("latin-1")
    for image in images:
        c07.user_index_path(prod.url, image).unlink(missing_ok=True)
    return prod, images, ref, docs


def location_path(prod, image, location):
    if location == "user":
        return c07.user_index_path(prod.url, image)
    return prod.dir / f"{image}.index"


def clean(prod, images):
    for image in images:
        for loc in ("user", "adjacent"):
            p = location_path(prod, image, loc)
            p.unlink(missing_ok=True)
        with contextlib.suppress(OSError):
            c07.user_index_path(prod.url, image).parent.rmdir()


def doc_json(doc):
    return json.loads(doc.encode("latin-1").decode("utf-8"))


def non_ascii_cuts(doc):
    """every cut position before, inside and after a multi-byte character of the document"""
    out = set()
    for i, ch in enumerate(doc):
        if ord(ch) >= 0x80:
            out.update({i, i + 1})
    return out


def token_boundaries(text, limit=60):
    out, depth_str = [], False
    i = 0
    while i < len(text) and len(out) < limit:
        ch = text[i]
        if ch == '"':
            j = i + 1
            while text[j] != '"' or text[j - 1] == "\\":
                j += 1
            out.extend([i, j + 1])
            i = j + 1
            continue
        if ch in "{}[],:":
            out.append(i)
            out.append(i + 1)
        i += 1
    return sorted(set(out))[:limit]


def after_fault(prod, images, ref, docs, what, through="open_alos2", target_image=None, torn_images=None):
    """the oracle applied to whatever torn state is now on disk"""
    out = []
    if through == "open_image":
        import fsspec

        from ceos_alos2.sar_image import open_image
        from ceos_alos2.xarray import to_dataset

        mapper = fsspec.get_mapper(prod.url)
        group, err = harness.guard(open_image, mapper, target_image, use_cache=True, create_cache=False, records_per_chunk=1024)
        if err is not None:
            return [harness.disc("poisoned-open", what, "image group (fallback to parsing)", harness.exc_text(err))]
        gname = group.name
        import xarray as xr

        flat = harness.flatten(xr.DataTree.from_dict({"/": to_dataset(group)}))
        # keys relative to the group: "/", "@attr", "#var", "#var@attr"
        prefix = f"/imagery/{gname}"
        want = {k[len(prefix):]: v for k, v in ref.items() if k.startswith(prefix) and k[len(prefix):][:1] in ("/", "@", "#")}
        # the group converted on its own (the per-group conversion open_alos2 uses): keys
        # "//", "/@attr", "/#var" -> "/", "@attr", "#var"
        got = {k[1:]: v for k, v in flat.items()}
        return [dict(d, where=what) for d in harness.diff_flat(want, got, kind="torn-cache-differs")][:3]
    tree, err = harness.guard(harness.open_tree, prod.url)
    if err is not None:
        out.append(harness.disc("poisoned-open", what, "tree identical to the uncached open", harness.exc_text(err)))
    else:
        out.extend(dict(d, where=f"{what}: {d['where']}") for d in harness.diff_flat(ref, harness.flatten(tree), kind="torn-cache-differs")[:3])
    # repair
    tree, err = harness.guard(harness.open_tree, prod.url, create_cache=True)
    if err is not None:
        out.append(harness.disc("repair-failed", what, "create_cache=True succeeds", harness.exc_text(err)))
        return out
    out.extend(dict(d, where=f"{what} (repair open): {d['where']}") for d in harness.diff_flat(ref, harness.flatten(tree), kind="torn-cache-differs")[:3])
    for image in images:
        p = c07.user_index_path(prod.url, image)
        if not p.is_file():
            # an image whose cache was complete (or that had none and was served by a complete
            # adjacent cache) needs no repair; a torn one must have been rewritten
            if torn_images is None or image in torn_images:
                out.append(harness.disc("repair-incomplete", what, f"complete index for {image}", "missing"))
            continue
        try:
            if json.loads(p.read_text()) != doc_json(docs[image]):
                out.append(harness.disc("repair-incomplete", what, "index equal to the reference document", "different document"))
        except ValueError as e:
            out.append(harness.disc("repair-incomplete", what, "complete index", harness.exc_text(e)))
    tree, err = harness.guard(harness.open_tree, prod.url, use_cache=True)
    if err is not None:
        out.append(harness.disc("poisoned-open", f"{what} (after repair)", "tree", harness.exc_text(err)))
    else:
        out.extend(dict(d, where=f"{what} (after repair): {d['where']}") for d in harness.diff_flat(ref, harness.flatten(tree), kind="torn-cache-differs")[:3])
    return out


KILL_SCRIPT = r"""
import os, pathlib, signal, sys
url, target, offset = sys.argv[1], sys.argv[2], int(sys.argv[3])
original = pathlib.Path.write_text
def torn_write_text(self, data, *args, **kwargs):
    if not str(self).endswith(".index") or target not in str(self):
        return original(self, data, *args, **kwargs)
    raw = data.encode()
    fd = os.open(self, os.O_WRONLY | os.O_CREAT | os.O_TRUNC, 0o644)
    os.write(fd, raw[:offset])          # unbuffered: exactly `offset` bytes reach the file
    os.kill(os.getpid(), signal.SIGKILL)
pathlib.Path.write_text = torn_write_text
import ceos_alos2
ceos_alos2.open_alos2(url, backend_options={"create_cache": True, "use_cache": False})
print("NOT-KILLED")
"""

WRITER_SCRIPT = r"""
import os, sys
path, text_file, cut = sys.argv[1], sys.argv[2], int(sys.argv[3])
raw = open(text_file, "rb").read()
fd = os.open(path, os.O_WRONLY | os.O_CREAT | os.O_TRUNC, 0o644)
os.write(fd, raw[:cut])
sys.stdout.write("HALF\n"); sys.stdout.flush()
sys.stdin.readline()                  # held mid-write until the reader has opened
os.write(fd, raw[cut:])
os.close(fd)
sys.stdout.write("DONE\n"); sys.stdout.flush()
"""



# ---- interleaved reader / library writer ---------------------------------------------------------
INDEX_OPS = []


class PathYields:
    """while active, the operations the library performs on index files (and on the directory that
    holds them) are yield points of a deterministic scheduler, and a write of an index file is not
    atomic: it becomes visible as 'truncated', 'first half', 'complete' - what another process
    can observe of a plain write"""

    def __init__(self, sched):
        self.sched = sched
        self.saved = []

    @staticmethod
    def concerns(path):
        text = os.fspath(path) if not isinstance(path, int) else ""
        if isinstance(text, bytes):
            text = text.decode("utf-8", "replace")
        return ".index" in text or "xarray-ceos-alos2" in text

    def patch(self, owner, name, make):
        original = getattr(owner, name)
        self.saved.append((owner, name, original))
        setattr(owner, name, make(original))

    def __enter__(self):
        sched, concerns = self.sched, self.concerns

        def simple(label):
            def make(original):
                def wrapper(path, *args, **kwargs):
                    if concerns(path):
                        sched.yield_point((label, os.path.basename(os.fspath(path))))
                    return original(path, *args, **kwargs)
                return wrapper
            return make

        for name in ("is_file", "exists", "read_text", "read_bytes", "mkdir"):
            self.patch(pathlib.Path, name, simple(name))
        for name in ("unlink", "remove", "rename", "replace"):
            self.patch(os, name, simple(name))

        def make_write_text(original):
            def write_text(path, data, encoding=None, errors=None, newline=None):
                if not concerns(path) or not isinstance(data, str):
                    return original(path, data, encoding=encoding, errors=errors, newline=newline)
                base = os.path.basename(os.fspath(path))
                sched.yield_point(("write:truncate", base))
                half = len(data) // 2
                with open(path, "w", encoding=encoding, errors=errors, newline=newline) as f:
                    sched.yield_point(("write:first-half", base))
                    f.write(data[:half])
                    f.flush()
                    sched.yield_point(("write:rest", base))
                    f.write(data[half:])
                return len(data)
            return write_text

        def make_write_bytes(original):
            def write_bytes(path, data):
                if not concerns(path):
                    return original(path, data)
                base = os.path.basename(os.fspath(path))
                sched.yield_point(("write:truncate", base))
                view = bytes(data)
                half = len(view) // 2
                with open(path, "wb") as f:
                    sched.yield_point(("write:first-half", base))
                    f.write(view[:half])
                    f.flush()
                    sched.yield_point(("write:rest", base))
                    f.write(view[half:])
                return len(view)
            return write_bytes

        self.patch(pathlib.Path, "write_text", make_write_text)
        self.patch(pathlib.Path, "write_bytes", make_write_bytes)
        return self

    def __exit__(self, *exc):
        for owner, name, original in reversed(self.saved):
            setattr(owner, name, original)
        self.saved = []


ACTORS = {
    # name -> options of the open performed by that thread
    "reader": {},
    "reader-rpc": {"records_per_chunk": 2},
    "writer": {"create_cache": True, "use_cache": False},
    "writer-using": {"create_cache": True, "use_cache": True},
}


def run_interleaved(case, prod, images, ref, docs, schedule):
    """one schedule of two or three concurrent opens of the same product; returns (discs, sched)"""
    import threading

    from vf.props import c19

    clean(prod, images)
    initial = case["initial"]
    if initial != "absent":
        for image in images:
            p = location_path(prod, image, "user")
            p.parent.mkdir(parents=True, exist_ok=True)
            raw = docs[image].encode("latin-1")
            p.write_bytes(raw if initial == "complete" else raw[: len(raw) // 3])
    names = case["actors"]
    sched = c19.Scheduler(schedule, len(names))
    trees, errors = {}, {}

    def body(tid, name):
        sched.local.tid = tid
        try:
            sched.yield_point(("start",))
            trees[tid] = harness.open_tree(prod.url, **ACTORS[name])
        except c19.SchedulerAbort:
            errors[tid] = "aborted"
        except Exception as e:  # noqa: BLE001
            errors[tid] = harness.exc_text(e)
        finally:
            sched.finished(tid)

    threads = [threading.Thread(target=body, args=(i, n), daemon=True) for i, n in enumerate(names)]
    with PathYields(sched):
        for t in threads:
            t.start()
        sched.run()
        for t in threads:
            t.join(timeout=20)
            if t.is_alive():
                raise c19.HarnessTimeout("thread did not finish after the scheduler ended")
    out = []
    ctx = {"choices": list(sched.choices), "actors": names, "initial": initial}
    if sched.deadlock:
        return [harness.disc("deadlock", "concurrent opens", "all opens return", "no runnable thread", **ctx)], sched
    for tid, name in enumerate(names):
        if not name.startswith("reader"):
            continue
        what = f"default open while another open writes the cache (thread {tid})"
        if tid in errors:
            out.append(harness.disc("poisoned-open", what, "tree identical to the uncached open", errors[tid], **ctx))
        elif name == "reader":
            flat, err = harness.guard(harness.flatten, trees[tid])
            if err is not None:
                out.append(harness.disc("poisoned-open", what, "loadable tree", harness.exc_text(err), **ctx))
            else:
                out.extend(dict(d, context=dict(d.get("context", {}), **ctx)) for d in harness.diff_flat(ref, flat, kind="torn-cache-differs")[:3])
    if out:
        return out, sched
    # afterwards: a default open succeeds, a create_cache repairs, the cache is then complete
    tree, err = harness.guard(harness.open_tree, prod.url)
    if err is not None:
        out.append(harness.disc("poisoned-open", "default open after the concurrent opens", "tree", harness.exc_text(err), **ctx))
    else:
        out.extend(dict(d, context=dict(d.get("context", {}), **ctx)) for d in harness.diff_flat(ref, harness.flatten(tree), kind="torn-cache-differs")[:3])
    return out, sched


INTERLEAVED_UNITS = {}


def run_interleaved_dfs(case, prod, images, ref, docs):
    """depth-first enumeration of the interleavings whose first decisions equal the prefix"""
    out, units = [], []
    prefix = list(case["prefix"])
    choices = list(prefix)
    realisable, complete = True, True
    while True:
        discs, sched = run_interleaved(case, prod, images, ref, docs, choices)
        br, ch = sched.branching, sched.choices
        if len(ch) < len(prefix) or any(p >= b for p, b in zip(prefix, br)):
            realisable = False
            break
        switches = sum(1 for a, b in zip(sched.trace, sched.trace[1:]) if a[0] != b[0])
        units.append((tuple(ch), switches >= 2))
        if discs and not out:
            out.extend(discs)
            break
        i = len(ch) - 1
        while i >= len(prefix) and ch[i] + 1 >= br[i]:
            i -= 1
        if i < len(prefix):
            break
        choices = ch[:i] + [ch[i] + 1]
        if len(units) >= case["limit"]:
            complete = False
            break
    INTERLEAVED_UNITS[harness.case_hash(case)] = units if realisable else []
    if realisable:
        NOTES["interleavings-complete" if complete else "inexhaustive:interleavings-truncated"] += 1
    return out if realisable else []




def interleaved_cases(tier):
    q = tier == "quick"
    for level in LEVELS[:1] if q else LEVELS:
        for initial in ("complete", "absent", "torn"):
            for actors in (["reader", "writer"], ["reader", "writer-using"], ["reader-rpc", "writer", "writer"]):
                n = len(actors)
                if q and n == 3 and initial != "complete":
                    continue
                for a in range(n):
                    for b in range(n):
                        yield {"kind": "interleaved", "level": level, "initial": initial, "actors": actors, "prefix": [a, b],
                               "limit": (40 if n == 2 else 15) if q else (3000 if n == 2 else 600)}


def run_case(case):
    prod, images, ref, docs = base(case["level"])
    clean(prod, images)
    try:
        if case["kind"] == "prefix":
            image = images[case["image"]]
            doc = docs[image]
            k = case["k"] % (len(doc) + 1) if case.get("mod") else min(case["k"], len(doc))
            if case.get("from_end"):
                k = len(doc) - case["k"]
            p = location_path(prod, image, case["location"])
            p.parent.mkdir(parents=True, exist_ok=True)
            p.write_bytes(doc.encode("latin-1")[:k])
            what = f"prefix at {case['location']}"
            torn = {image} if k < len(doc) else set()
            if case["location"] == "user":
                torn |= set()  # the other images have no cache at all: create_cache=True writes them
            out = after_fault(prod, images, ref, docs, what, case.get("through", "open_alos2"), image,
                              torn_images=torn | {im for im in images if im != image})
            for d in out:
                d.setdefault("context", {}).update(k=k, length=len(doc))
            return out
        if case["kind"] == "prefix2":
            # interrupted twice: a torn index in the user cache dir AND a torn one next to the image
            image = images[case["image"]]
            doc = docs[image]
            ks = {}
            for loc in ("user", "adjacent"):
                k = case[f"k_{loc}"] % (len(doc) + 1)
                ks[loc] = k
                p = location_path(prod, image, loc)
                p.parent.mkdir(parents=True, exist_ok=True)
                p.write_bytes(doc.encode("latin-1")[:k])
            torn = {im for im in images if im != image}
            # the user-dir index must be complete after the repair unless a complete one was served
            if ks["user"] < len(doc):
                torn.add(image)
            out = after_fault(prod, images, ref, docs, "prefixes at user and adjacent", torn_images=torn)
            for d in out:
                d.setdefault("context", {}).update(k_user=ks["user"], k_adjacent=ks["adjacent"], length=len(doc))
            return out
        if case["kind"] == "kill":
            image = images[case["image"]]
            offset = case["offset"] % (len(docs[image]) + 1)
            r = subprocess.run(
                [sys.executable, "-c", KILL_SCRIPT, prod.url, image, str(offset)],
                capture_output=True, text=True, env=dict(os.environ), timeout=120,
            )
            if r.returncode == 0 and "NOT-KILLED" in r.stdout:
                # the library did not write the index through pathlib.Path.write_text (e.g. a
                # temp-file + rename scheme): the crash could not be injected this way; the state
                # left behind (a complete cache) is still judged below
                NOTES["sigkill-not-injected"] += 1
            elif r.returncode != -9:
                raise RuntimeError(f"child failed: rc={r.returncode} {r.stdout[-100:]} {r.stderr[-300:]}")
            torn = c07.user_index_path(prod.url, image)
            size = torn.stat().st_size if torn.exists() else None
            out = after_fault(prod, images, ref, docs, "SIGKILL during create_cache")
            for d in out:
                d.setdefault("context", {}).update(offset=offset, torn_size=size)
            return out
        if case["kind"] == "writer":
            image = images[case["image"]]
            doc = docs[image]
            cut = case["cut"] % (len(doc) + 1)
            p = location_path(prod, image, case["location"])
            p.parent.mkdir(parents=True, exist_ok=True)
            text_file = pathlib.Path(harness.scratch_root()) / f"doc-{os.getpid()}.json"
            text_file.write_bytes(doc.encode("latin-1"))
            proc = subprocess.Popen([sys.executable, "-c", WRITER_SCRIPT, str(p), str(text_file), str(cut)],
                                    stdin=subprocess.PIPE, stdout=subprocess.PIPE, text=True)
            try:
                if proc.stdout.readline().strip() != "HALF":
                    raise RuntimeError("writer did not start")
                out = []
                tree, err = harness.guard(harness.open_tree, prod.url)
                if err is not None:
                    out.append(harness.disc("poisoned-open", "second process still writing", "tree identical to the uncached open", harness.exc_text(err)))
                else:
                    out.extend(harness.diff_flat(ref, harness.flatten(tree), kind="torn-cache-differs")[:3])
                proc.stdin.write("go\n")
                proc.stdin.flush()
                if proc.stdout.readline().strip() != "DONE":
                    raise RuntimeError("writer did not finish")
            finally:
                proc.stdin.close()
                proc.wait(timeout=30)
                text_file.unlink(missing_ok=True)
            tree, err = harness.guard(harness.open_tree, prod.url, use_cache=True)
            if err is not None:
                out.append(harness.disc("poisoned-open", "after the second writer finished", "tree", harness.exc_text(err)))
            else:
                out.extend(harness.diff_flat(ref, harness.flatten(tree), kind="torn-cache-differs")[:3])
            for d in out:
                d.setdefault("context", {}).update(cut=cut, length=len(doc))
            return out
        if case["kind"] == "enospc":
            return run_enospc(case, prod, images, ref, docs)
        if case["kind"] == "concurrent-tools":
            return run_concurrent_tools(case, prod, images, ref, docs)
        if case["kind"] == "interleaved":
            if "schedule" in case:
                return run_interleaved(case, prod, images, ref, docs, case["schedule"])[0]
            return run_interleaved_dfs(case, prod, images, ref, docs)
        raise ValueError(case["kind"])
    finally:
        clean(prod, images)


def run_concurrent_tools(case, prod, images, ref, docs):
    """two runs of the cache tool at once, one per image of the product ("a second process still
    writing"), interleaved at the most awkward point: both have written whatever they write
    before either renames anything into place (os.replace / os.rename are held back until the
    other run has got there too, or has finished).  Afterwards the product must open like the
    uncached reference."""
    import threading

    from ceos_alos2.sar_image import cli

    state = {"arrived": 0, "done": 0, "renamed": 0}
    cond = threading.Condition()
    real_replace, real_rename = os.replace, os.rename

    def held(real):
        def call(*a, **k):
            with cond:
                state["arrived"] += 1
                ticket = state["arrived"]
                cond.notify_all()
                # wait until the other run has written too (or has finished) ...
                cond.wait_for(lambda: state["arrived"] + state["done"] >= 2, timeout=10)
                # ... then rename in the order of arrival: write(A), write(B), rename(A), rename(B)
                cond.wait_for(lambda: state["renamed"] + state["done"] >= ticket - 1, timeout=10)
            try:
                return real(*a, **k)
            finally:
                with cond:
                    state["renamed"] += 1
                    cond.notify_all()

        return call

    held_replace, held_rename = held(real_replace), held(real_rename)

    cache_root = None
    if case["location"] == "user":
        cache_root = c07.user_index_path(prod.url, images[0]).parent
        cache_root.mkdir(parents=True, exist_ok=True)
    errors = {}

    def run(image):
        try:
            cli.create_cache(prod.dir / image, cache_root, case.get("rpc", 2))
        except Exception as e:  # noqa: BLE001 - judged below
            errors[image] = e
        finally:
            with cond:
                state["done"] += 1
                cond.notify_all()

    os.replace, os.rename = held_replace, held_rename
    try:
        threads = [threading.Thread(target=run, args=(image,), daemon=True) for image in images]
        for t in threads:
            t.start()
        for t in threads:
            t.join(timeout=60)
    finally:
        os.replace, os.rename = real_replace, real_rename
    out = []
    for image, e in errors.items():
        if not isinstance(e, OSError):
            out.append(harness.disc("tool-failed", "two cache tool runs at once", "both finish (or fail with OSError)", harness.exc_text(e)))
    tree, err = harness.guard(harness.open_tree, prod.url)
    if err is not None:
        out.append(harness.disc("poisoned-open", "after two cache tool runs at once", "tree identical to the uncached open", harness.exc_text(err)))
    else:
        out.extend(dict(d, where=f"after two cache tool runs at once: {d['where']}") for d in harness.diff_flat(ref, harness.flatten(tree), kind="torn-cache-differs")[:3])
    return out


def run_enospc(case, prod, images, ref, docs):
    """disk full: the write of one image's index stops after `offset` bytes with ENOSPC, in THIS
    process (so whatever the library remembers about the failed attempt is still in memory); the
    failing call itself may raise OSError, every later open must behave"""
    import errno

    image = images[case["image"]]
    offset = case["offset"] % (len(docs[image]) + 1)
    original = pathlib.Path.write_text
    original_open = pathlib.Path.open
    injected = []

    def torn_write_text(self, data, *args, **kwargs):
        if not str(self).endswith(".index") or image not in str(self):
            return original(self, data, *args, **kwargs)
        fd = os.open(self, os.O_WRONLY | os.O_CREAT | os.O_TRUNC, 0o644)
        try:
            os.write(fd, data.encode()[:offset])
        finally:
            os.close(fd)
        injected.append(str(self))
        raise OSError(errno.ENOSPC, os.strerror(errno.ENOSPC), str(self))

    pathlib.Path.write_text = torn_write_text
    still_full = None
    try:
        tree, err = harness.guard(harness.open_tree, prod.url, create_cache=True, use_cache=False)
        if case.get("still_full"):
            # the disk is still full when the product is opened again with default options: the
            # open must not depend on being able to write (it was not asked to write anything)
            still_full = harness.guard(harness.open_tree, prod.url)
    finally:
        pathlib.Path.write_text = original
        pathlib.Path.open = original_open
    out = []
    if still_full is not None:
        t2, e2 = still_full
        if e2 is not None:
            out.append(harness.disc("poisoned-open", "default open while the disk is still full", "tree identical to the uncached open", harness.exc_text(e2)))
        else:
            out.extend(dict(d, where=f"default open while the disk is still full: {d['where']}") for d in harness.diff_flat(ref, harness.flatten(t2), kind="torn-cache-differs")[:3])
    if not injected:
        NOTES["enospc-not-injected"] += 1
    if err is not None and not isinstance(err, OSError):
        out.append(harness.disc("poisoned-open", "ENOSPC during create_cache", "a tree or an OSError", harness.exc_text(err)))
    if err is None:
        out.extend(dict(d, where=f"open that hit ENOSPC: {d['where']}") for d in harness.diff_flat(ref, harness.flatten(tree), kind="torn-cache-differs")[:3])
        if injected:
            # "a later successful create_cache=True repairs it": this create_cache=True open came
            # back without an error, so the index it was asked to write has to be complete now
            p = location_path(prod, image, "user")
            raw = p.read_bytes() if p.is_file() else b""
            try:
                complete = json.loads(raw.decode("utf-8")) is not None and len(raw) >= len(docs[image].encode("utf-8")) - 2
            except ValueError:
                complete = False
            if not complete:
                out.append(harness.disc("successful-create-left-torn-cache", "open_alos2(create_cache=True) whose index write hit ENOSPC returned without an error",
                                        "a complete index file (or an OSError)", f"{len(raw)} of {len(docs[image].encode('utf-8'))} bytes on disk"))
    out.extend(after_fault(prod, images, ref, docs, "ENOSPC during create_cache"))
    for d in out:
        d.setdefault("context", {}).update(offset=offset, length=len(docs[image]))
    return out


def enum_cases(tier):
    for level in LEVELS:
        try:
            prod, images, ref, docs = base(level)
        except SetupViolation:
            # reported by run_case of the first case below
            yield {"kind": "prefix", "level": level, "image": 0, "location": "user", "k": 0}
            continue
        for i, image in enumerate(images):
            n = len(docs[image])
            for location in ("user", "adjacent"):
                if tier == "quick":
                    ks = sorted({0, 1, n - 1, n, *token_boundaries(docs[image]), *non_ascii_cuts(docs[image])})
                    if not (i == 0 or location == "user"):
                        ks = ks[:12]
                    for k in ks:
                        yield {"kind": "prefix", "level": level, "image": i, "location": location, "k": k}
                else:
                    for k in range(n + 1):
                        through = "open_alos2" if k % 25 == 0 or k in (1, n - 1, n) else "open_image"
                        yield {"kind": "prefix", "level": level, "image": i, "location": location, "k": k, "through": through}
        for i, image in enumerate(images):
            n = len(docs[image])
            grid = [0, 1, n // 2, n - 1] if tier == "quick" else [0, 1, 2, n // 3, n // 2, n - 2, n - 1, n]
            for ku in grid:
                for ka in grid:
                    if tier == "quick" and i == 1 and (ku + ka) % 2:
                        continue
                    yield {"kind": "prefix2", "level": level, "image": i, "k_user": ku, "k_adjacent": ka}
        for location in ("adjacent", "user"):
            yield {"kind": "concurrent-tools", "level": level, "location": location, "rpc": 2}
        for j in range(2 if tier == "quick" else 12):
            yield {"kind": "writer", "level": level, "image": j % 2, "location": ["user", "adjacent"][j % 2], "cut": 37 + 211 * j}


@st.composite
def random_prefix(draw):
    return {
        "kind": "prefix",
        "level": draw(st.sampled_from(LEVELS)),
        "image": draw(st.integers(0, 1)),
        "location": draw(st.sampled_from(["user", "adjacent"])),
        "k": draw(st.integers(0, 40000)),
        "mod": True,
    }


@st.composite
def random_prefix2(draw):
    return {"kind": "prefix2", "level": draw(st.sampled_from(LEVELS)), "image": draw(st.integers(0, 1)),
            "k_user": draw(st.integers(0, 40000)), "k_adjacent": draw(st.integers(0, 40000))}


@st.composite
def enospc_cases(draw):
    return {"kind": "enospc", "level": draw(st.sampled_from(LEVELS)), "image": draw(st.integers(0, 1)),
            "offset": draw(st.one_of(st.sampled_from([0, 1]), st.integers(0, 40000))),
            "still_full": draw(st.booleans())}


@st.composite
def kill_cases(draw):
    return {"kind": "kill", "level": draw(st.sampled_from(LEVELS)), "image": draw(st.integers(0, 1)), "offset": draw(st.integers(0, 40000))}


def plan(tier):
    q = tier == "quick"
    return [
        {"kind": "enum", "name": "prefixes+live-writer", "cases": lambda: enum_cases(tier), "exhaustive": True},
        {"kind": "enum", "name": "interleaved-opens", "cases": lambda: interleaved_cases(tier), "exhaustive": False},
        {"kind": "hyp", "name": "random-prefixes", "strategy": random_prefix(), "examples": 60 if q else 2000},
        {"kind": "hyp", "name": "random-prefix-pairs", "strategy": random_prefix2(), "examples": 30 if q else 2000},
        {"kind": "hyp", "name": "sigkill", "strategy": kill_cases(), "examples": 8 if q else 200},
        {"kind": "hyp", "name": "disk-full", "strategy": enospc_cases(), "examples": 24 if q else 1500},
    ]


def sub_units(case):
    if case["kind"] == "interleaved" and "schedule" not in case:
        for choices, nontrivial in INTERLEAVED_UNITS.pop(harness.case_hash(case), []):
            yield ["interleaved", case["level"], case["initial"], case["actors"], list(choices)], nontrivial
    else:
        yield case, classify(case)[0]


def classify(case):
    labels = [f"kind={case['kind']}", f"level={case['level']}"]
    if case["kind"] == "interleaved":
        labels += [f"initial={case['initial']}", "actors=" + "+".join(case["actors"])]
    if case["kind"] == "prefix":
        labels.append(f"location={case['location']}")
        labels.append(f"through={case.get('through', 'open_alos2')}")
        try:
            _, images, _, docs = base(case["level"])
        except SetupViolation:
            return True, labels
        n = len(docs[images[case["image"]]])
        k = case["k"] % (n + 1) if case.get("mod") else min(case["k"], n)
        return 0 < k < n, labels
    return True, labels


LEVEL_TEXT = (
    "Fault enumeration over the crash points of the cache write: every byte-length prefix of the "
    "index document (thorough: all of them, for both images, both locations, both levels), real "
    "SIGKILLs of a writing process at generated offsets and a live second writer; after each "
    "fault the default open must equal the uncached reference and a later create_cache must repair; "
    "plus schedule enumeration of a reader interleaved with the library's own cache writer at the level of index-file operations."
)
LEVEL_NOTE = "Trusted: the harness-installed byte-wise writer in the child process (pathlib.Path.write_text replaced there only); tree flattener."
TECHNIQUE = "fault enumeration of all write prefixes + SIGKILL injection + held concurrent writer + deterministic-scheduler enumeration of reader/writer interleavings; metamorphic oracle vs uncached reference, repair check"
