#!/bin/bash
# offline setup: hypothesis into /venv if missing; atheris into /verif/.deps (thorough fuzz tiers)
set -e
here="$(cd "$(dirname "$0")" && pwd)"
export PIP_NO_INDEX=1
/venv/bin/python -c "import hypothesis" 2>/dev/null || \
  /venv/bin/pip install --no-index --find-links /opt/veriftools/wheels hypothesis
if ! PYTHONPATH="$here/.deps" /venv/bin/python -c "import atheris" 2>/dev/null; then
  /venv/bin/pip install --no-index --find-links /opt/veriftools/wheels --target "$here/.deps" atheris || \
    echo "atheris not installable: fuzz stages will be skipped (recorded in evidence)"
fi
echo setup ok
