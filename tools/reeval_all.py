"""re-evaluate every seeded change (against its own property's check and the checks that caught it
before) and every property-preserving patch (against all checks); sequential, a few in parallel"""
import concurrent.futures
import glob
import json
import os
import pathlib
import subprocess
import sys

VERIF = pathlib.Path(__file__).resolve().parent.parent
only = set(sys.argv[1:])


def seeded(path):
    m = json.loads(open(path).read())
    sid = m["id"]
    checks = [m["property"]] + [c for c in (m.get("evaluation", {}).get("caught_by") or []) if c != m["property"]]
    r = subprocess.run([sys.executable, str(VERIF / "tools" / "seeded.py"), sid, "--checks", ",".join(checks)],
                       capture_output=True, text=True, env=dict(os.environ, SEEDED_PARALLEL="2"))
    line = [l for l in r.stdout.splitlines() if l.startswith("{")]
    return sid, (json.loads(line[-1]) if line else {"error": r.stderr[-300:]})


def preserving(path):
    m = json.loads(open(path).read())
    r = subprocess.run([sys.executable, str(VERIF / "tools" / "preserving.py"), m["id"]],
                       capture_output=True, text=True, env=dict(os.environ, SEEDED_PARALLEL="3"))
    return m["id"], r.stdout[-400:]


jobs = []
with concurrent.futures.ThreadPoolExecutor(max_workers=3) as ex:
    for path in sorted(glob.glob(str(VERIF / "seeded" / "*" / "meta.json"))):
        if not only or pathlib.Path(path).parent.name in only:
            jobs.append(ex.submit(seeded, path))
    for path in sorted(glob.glob(str(VERIF / "preserving" / "*" / "meta.json"))):
        if not only or pathlib.Path(path).parent.name in only:
            jobs.append(ex.submit(preserving, path))
    for j in concurrent.futures.as_completed(jobs):
        sid, res = j.result()
        if isinstance(res, dict):
            print(sid, "caught_by", res.get("caught_by"), "harness_errors", res.get("harness_errors"), res.get("error", ""), flush=True)
        else:
            print(sid, " ".join(res.split()), flush=True)
