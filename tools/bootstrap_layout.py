"""Bootstrap tool (provenance only; never run by a check).

Walks the construct structs of the *pinned* commit of ceos_alos2 and emits nested layout
tables (name / width / codec / factor / units / enum codes) as JSON under /verif/layout.
The result was hand-audited (record sizes, widths, counts) and is then FROZEN: checks never
derive a layout from the tree under test.

usage: PYTHONPATH=/repo /venv/bin/python tools/bootstrap_layout.py
"""
import json
import pathlib
import sys

import construct as C

from ceos_alos2 import datatypes as D
from ceos_alos2.sar_image import enums as E

OUT = pathlib.Path(__file__).resolve().parent.parent / "layout"

INT_CODECS = {1: "B-u8", 2: "B-u16", 4: "B-u32", 8: "B-u64"}


def walk(con, name=None):
    """return an item dict for a construct"""
    if isinstance(con, C.Renamed):
        return walk(con.subcon, con.name)
    item = {"n": name}
    if isinstance(con, D.Metadata):
        inner = walk(con.subcon, name)
        inner.setdefault("attrs", {}).update(con.attrs)
        return inner
    if isinstance(con, D.Factor):
        inner = walk(con.subcon, name)
        inner["factor"] = con.factor
        return inner
    if isinstance(con, C.Enum):
        inner = walk(con.subcon, name)
        inner["enum"] = {str(k): v for k, v in con.encmapping.items()}
        return inner
    if isinstance(con, E.Flag):
        inner = walk(con.subcon, name)
        inner["flag"] = True
        return inner
    if isinstance(con, D.DatetimeYdms):
        item.update(c="ydms", w=12)
        return item
    if isinstance(con, D.DatetimeYdus):
        item.update(c="ydus", w=8)
        return item
    if isinstance(con, D.StripNullBytes):
        inner = walk(con.subcon, name)
        inner["c"] = "bytes"
        return inner
    if isinstance(con, D.AsciiComplex):
        item.update(c="A-complex", w=con.subcon.sizeof())
        return item
    if isinstance(con, (D.AsciiInteger, D.AsciiFloat, D.PaddedString)):
        codec = {D.AsciiInteger: "A-int", D.AsciiFloat: "A-float", D.PaddedString: "A-str"}[
            type(con)
        ]
        try:
            w = con.sizeof()
        except Exception:
            w = None  # length depends on the context: a padding expression
        item.update(c=codec, w=w)
        return item
    if isinstance(con, C.FormatField):
        item.update(c=INT_CODECS[con.length], w=con.length)
        return item
    if isinstance(con, C.Bytes):
        item.update(c="bytes", w=con.length)
        return item
    if isinstance(con, C.Struct):
        item["items"] = [walk(sc) for sc in con.subcons]
        return item
    if isinstance(con, C.Array):
        count = con.count if isinstance(con.count, int) else None
        item["repeat"] = count
        item["elem"] = walk(con.subcon, None)
        return item
    if con is C.Tell or isinstance(con, (C.Seek, C.Computed)) or type(con).__name__ == "Tell":
        item.update(c="virtual", w=0)
        return item
    raise TypeError(f"unhandled construct {con!r} ({type(con)}) at {name}")


# Context-dependent lengths / multiplicities.  These are NOT copied from the struct lambdas: they
# are the format's own statements (record sizes and counts a real file declares in its
# descriptors), written down by hand and audited against the fixed record sizes
# 4680 / 1620 / 720 and the descriptor-declared record lengths.
FIXUPS = {
    "sar_leader": {
        "map_projection": {"repeat_from": "file_descriptor/map_projection/number_of_records"},
        "attitude/data_points": {"repeat_from": "attitude/number_of_points"},
        # attitude record: 12 preamble + 4 count + n*120, padded to the declared record length
        "attitude/blanks": {"w_expr": "L - 16 - 120*n", "n_from": "attitude/number_of_points",
                            "L_from": "attitude/preamble/record_length"},
        "data_quality_summary/relative_radiometric_quality/nominal_relative_radiometric_calibration_uncertainty":
            {"repeat_from": "data_quality_summary/number_of_channels"},
        # 512-byte block holding n 32-byte entries
        "data_quality_summary/relative_radiometric_quality/blanks":
            {"w_expr": "512 - 32*n", "n_from": "data_quality_summary/number_of_channels"},
        "data_quality_summary/relative_geometric_quality/relative_misregistration_error":
            {"repeat_from": "data_quality_summary/number_of_channels"},
        # record is 1620 bytes in total: 830 bytes precede this block, so the block is 790 bytes
        "data_quality_summary/relative_geometric_quality/blanks":
            {"w_expr": "790 - 32*n", "n_from": "data_quality_summary/number_of_channels"},
        "facility_related_data_1/raw_file_data": {"w_expr": "L - 66", "L_from": "facility_related_data_1/preamble/record_length"},
        "facility_related_data_2/raw_file_data": {"w_expr": "L - 66", "L_from": "facility_related_data_2/preamble/record_length"},
        "facility_related_data_3/raw_file_data": {"w_expr": "L - 66", "L_from": "facility_related_data_3/preamble/record_length"},
        "facility_related_data_4/raw_file_data": {"w_expr": "L - 66", "L_from": "facility_related_data_4/preamble/record_length"},
    },
    "volume_directory": {
        "file_descriptors": {"repeat_from": "volume_descriptor/number_of_file_pointer_records"},
    },
    "trailer_file_descriptor": {
        "low_resolution_image_sizes": {"repeat_from": "number_of_low_resolution_images"},
        # the descriptor is always 720 bytes; 496 bytes precede the table of 26-byte entries
        # (the struct under test pads 26 bytes less; it parses a 720-byte read, so that is inert)
        "blanks": {"w_expr": "224 - 26*n", "n_from": "number_of_low_resolution_images", "last": True},
    },
}


def find(tree, path, last=False):
    parts = path.split("/")
    node = tree
    for part in parts:
        children = node.get("items") or node["elem"]["items"]
        matches = [c for c in children if c["n"] == part]
        node = matches[-1] if last else matches[0]
    return node


def apply_fixups(name, tree):
    for path, fix in FIXUPS.get(name, {}).items():
        fix = dict(fix)
        node = find(tree, path, last=fix.pop("last", False))
        node.update(fix)
    # every context dependent item must now be resolved
    def check(node, path):
        if node.get("w", 0) is None and "w_expr" not in node:
            raise SystemExit(f"unresolved width at {path}")
        if "repeat" in node and node["repeat"] is None and "repeat_from" not in node:
            raise SystemExit(f"unresolved count at {path}")
        for c in node.get("items", []):
            check(c, f"{path}/{c['n']}")
        if "elem" in node:
            check(node["elem"], path + "/[]")
    check(tree, name)
    return tree


def main():
    from ceos_alos2.sar_image.file_descriptor import file_descriptor_record as img_fd
    from ceos_alos2.sar_image.processed_data import processed_data_record
    from ceos_alos2.sar_image.signal_data import signal_data_record
    from ceos_alos2.sar_leader.structure import sar_leader_record
    from ceos_alos2.sar_trailer.file_descriptor import file_descriptor_record as trl_fd
    from ceos_alos2.volume_directory.structure import volume_directory_record

    tables = {
        "image_file_descriptor": img_fd,
        "signal_data_record": signal_data_record,
        "processed_data_record": processed_data_record,
        "sar_leader": sar_leader_record,
        "volume_directory": volume_directory_record,
        "trailer_file_descriptor": trl_fd,
    }
    OUT.mkdir(exist_ok=True)
    for name, con in tables.items():
        tree = apply_fixups(name, walk(con, name))
        (OUT / f"{name}.json").write_text(json.dumps(tree, indent=1, ensure_ascii=False) + "\n")
        print(name, "ok")


if __name__ == "__main__":
    sys.exit(main())
