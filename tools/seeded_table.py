"""print the markdown table of DESIGN.md section 8.6 from seeded/*/meta.json and preserving/*/meta.json"""
import glob
import json
import pathlib

VERIF = pathlib.Path(__file__).resolve().parent.parent


def clip(text, n):
    text = " ".join(str(text or "").split())
    return text if len(text) <= n else text[: n - 3] + "..."


import io
import re
import sys

buf = io.StringIO()
_print = print


def print(*a):  # noqa: A001 - collect, then write into DESIGN.md
    _print(*a, file=buf)


print("| id | change (cover story) | needs, to manifest | caught by (quick tier) |")
print("|----|----------------------|--------------------|------------------------|")
for path in sorted(glob.glob(str(VERIF / "seeded" / "*" / "meta.json"))):
    m = json.loads(open(path).read())
    ev = m.get("evaluation", {})
    caught = ", ".join(ev.get("caught_by") or []) or "**none**"
    print(f"| {m['id']} | {clip(m.get('change'), 170)} | {clip(m.get('needs') or m.get('breaks'), 200)} | {caught} |")
seeded_text = buf.getvalue()
buf = io.StringIO()
print("| id | property-preserving changes | alarms |")
print("|----|-----------------------------|--------|")
for path in sorted(glob.glob(str(VERIF / "preserving" / "*" / "meta.json"))):
    m = json.loads(open(path).read())
    ev = m.get("evaluation", {})
    what = "; ".join(clip(c.get("file"), 60) for c in (m.get("changes") or []))
    alarms = ", ".join(ev.get("alarms") or []) or "none"
    errors = ", ".join(ev.get("harness_errors") or [])
    print(f"| {m['id']} | {clip(what, 300)} | {alarms}{' (harness errors: ' + errors + ')' if errors else ''} |")

preserving_text = buf.getvalue()
design = VERIF / "DESIGN.md"
text = design.read_text()
for name, body in (("seeded-table", seeded_text), ("preserving-table", preserving_text)):
    text = re.sub(rf"(<!-- {name}:begin -->\n).*?(<!-- {name}:end -->)", lambda m: m.group(1) + body + m.group(2), text, flags=re.S)
design.write_text(text)
_print("DESIGN.md tables refreshed:", seeded_text.count("\n") - 2, "seeded,", preserving_text.count("\n") - 2, "preserving")
