"""prepare one round of independent seeded changes: per property a scratch worktree of /repo under
/tmp/wt and a self-contained prompt file under /tmp/seedout (the sub-agent gets nothing from /verif
but the property text and one-line summaries of the changes that already exist)

usage: python3 tools/seed_round.py <suffix letter> [ids...]"""
import glob
import json
import pathlib
import re
import subprocess
import sys

VERIF = pathlib.Path(__file__).resolve().parent.parent
suffix = sys.argv[1]
only = set(sys.argv[2:])
template = (VERIF / "tools" / "seed_prompt.txt").read_text()
props = [json.loads(l) for l in open(VERIF / "properties.jsonl")]
for p in props:
    pid = p["id"]
    if only and pid not in only:
        continue
    sid = f"{pid}{suffix}"
    wt = pathlib.Path("/tmp/wt") / sid
    out = pathlib.Path("/tmp/seedout") / sid
    out.mkdir(parents=True, exist_ok=True)
    if not wt.exists():
        subprocess.run(["git", "-C", "/repo", "worktree", "add", "--detach", str(wt)], check=True, capture_output=True)
    earlier = []
    for path in sorted(glob.glob(str(VERIF / "seeded" / f"{pid}*" / "meta.json"))):
        m = json.loads(open(path).read())
        earlier.append(re.sub(r"\s+", " ", m.get("change", ""))[:110])
    text = (template.replace("{SID}", sid).replace("{PID}", pid).replace("{TITLE}", p["title"])
            .replace("{STATEMENT}", p["statement"]).replace("{EARLIER}", " || ".join(earlier)))
    (out / "prompt.txt").write_text(text)
    print(sid, len(earlier))
