"""Sensitivity harness: apply a small source mutation to a scratch copy of the repo, confirm the
repo's own suite still passes there, run the given checks with VERIF_REPO=<scratch> and report
whether each check raised a VIOLATION.  Scratch copies live under a mkdtemp dir and are removed.

usage: python tools/mutants.py [--no-suite] <mutant-id>... | --all | --list
"""
import json
import os
import pathlib
import shutil
import subprocess
import sys
import tempfile

VERIF = pathlib.Path(__file__).resolve().parent.parent

# id: (file, old, new, [properties expected to catch it])
MUTANTS = {
    "m-c01-endian": ("ceos_alos2/array.py", '"IU2": np.dtype(">u2")', '"IU2": np.dtype("<u2")', ["C01"]),
    "m-c01-realimag": ("ceos_alos2/array.py", 'data.real = raw["real"]\n        data.imag = raw["imag"]', 'data.real = raw["imag"]\n        data.imag = raw["real"]', ["C01"]),
    "m-c02-roworder": ("ceos_alos2/array.py", "    return list(get(list(selected_rows), list(enumerate(byte_ranges))))", "    return list(get(sorted(selected_rows), list(enumerate(byte_ranges))))", ["C02"]),
    "m-c04-swap": (
        "ceos_alos2/sar_leader/dataset_summary.py",
        '"ellipsoid_semimajor_axis" / Metadata(AsciiFloat(16), units="km"),\n    "ellipsoid_semiminor_axis" / Metadata(AsciiFloat(16), units="km"),',
        '"ellipsoid_semiminor_axis" / Metadata(AsciiFloat(16), units="km"),\n    "ellipsoid_semimajor_axis" / Metadata(AsciiFloat(16), units="km"),',
        ["C04"],
    ),
    "m-c04-factor": ("ceos_alos2/sar_leader/dataset_summary.py", "Factor(AsciiFloat(16), 1e24)", "Factor(AsciiFloat(16), 1e23)", ["C04"]),
    "m-c04-unit": ("ceos_alos2/sar_leader/platform_position.py", '"radial" / Metadata(AsciiFloat(16), units="m/s")', '"radial" / Metadata(AsciiFloat(16), units="m")', ["C04"]),
    "m-c04-width": (
        "ceos_alos2/sar_leader/dataset_summary.py",
        '"sensor_id_and_operation_mode" / PaddedString(32),\n    "orbit_number_or_flight_line_indicator" / AsciiInteger(8),',
        '"sensor_id_and_operation_mode" / PaddedString(34),\n    "orbit_number_or_flight_line_indicator" / AsciiInteger(6),',
        ["C04"],
    ),
    "m-c04-corner": ("ceos_alos2/sar_leader/map_projection.py", 'coordinate = ["top_left", "top_right", "bottom_right", "bottom_left"]', 'coordinate = ["top_left", "top_right", "bottom_left", "bottom_right"]', ["C04"]),
    "m-c06-lastchunk": ("ceos_alos2/sar_image/io.py", "if records_per_chunk * (index + 1) <= n_records", "if records_per_chunk * (index + 1) < n_records", ["C06", "C01", "C18"]),
    "m-c06-norm": ("ceos_alos2/array.py", "if chunksize in (None, -1) or chunksize > dim_size:", "if chunksize in (None, -1) or chunksize >= dim_size - 1:", ["C06"]),

    "m-c01-no720": ("ceos_alos2/sar_image/io.py", "offset * record_size + 720 for offset", "offset * record_size + 719 for offset", ["C01"]),
    "m-c02-relocate": ("ceos_alos2/array.py", "return chunk_info, [(min_ - offset, max_ - offset) for min_, max_ in ranges]", "return chunk_info, [(min_ - offset, max_ - offset) for min_, max_ in sorted(ranges)]", ["C02"]),
    "m-c03-swap": (
        "ceos_alos2/sar_image/processed_data.py",
        '"slant_range_to_mid_pixel" / Metadata(Int32ub, units="m"),\n    "slant_range_to_last_pixel" / Metadata(Int32ub, units="m"),',
        '"slant_range_to_last_pixel" / Metadata(Int32ub, units="m"),\n    "slant_range_to_mid_pixel" / Metadata(Int32ub, units="m"),',
        ["C03"],
    ),
    "m-c03-factor": ("ceos_alos2/sar_image/signal_data.py", '"platform_longitude" / Metadata(Factor(Int32ub, 1e-6), units="deg")', '"platform_longitude" / Metadata(Factor(Int32ub, 1e-5), units="deg")', ["C03"]),
    "m-c03-lastline": ("ceos_alos2/sar_image/metadata.py", "return variables | valmap(compose_left(second, first), attrs)", "return variables | valmap(compose_left(second, lambda v: v[-1]), attrs)", ["C03"]),
    "m-c03-unit": ("ceos_alos2/sar_image/processed_data.py", '"azimuth_fm_rate_of_mid_pixel" / Metadata(Int32ub, units="Hz/ms")', '"azimuth_fm_rate_of_mid_pixel" / Metadata(Int32ub, units="Hz/s")', ["C03"]),
    "m-c05-dq": ("ceos_alos2/sar_leader/data_quality_summary.py", "PaddedString(512 - this._.number_of_channels * 32)", "PaddedString(512 - this._.number_of_channels * 16 - 32)", ["C05"]),
    "m-c05-att": ("ceos_alos2/sar_leader/attitude.py", "(12 + 4 + this.number_of_points * 120)", "(12 + 4 + this.number_of_points * 120 + (this.number_of_points == 77))", ["C05"]),
    "m-c05-trailer": ("ceos_alos2/sar_trailer/__init__.py", "offsets = list(itertools.accumulate(data_sizes, initial=0))", "offsets = list(itertools.accumulate(data_sizes[::-1], initial=0))", ["C05"]),
    "m-c05-filepointers": ("ceos_alos2/volume_directory/structure.py", "file_descriptor[this.volume_descriptor.number_of_file_pointer_records]", "file_descriptor[lambda ctx: min(ctx.volume_descriptor.number_of_file_pointer_records, 9)]", ["C05", "C16"]),
    "m-c07-rpc": ("ceos_alos2/sar_image/caching/__init__.py", "return decode(local.read_text(), records_per_chunk=records_per_chunk)", "return decode(local.read_text(), records_per_chunk=None)", ["C07", "C10"]),
    "m-c07-usecache": ("ceos_alos2/sar_image/__init__.py", "    if use_cache:\n        try:", "    if use_cache or not create_cache:\n        try:", ["C07", "C10"]),
    "m-c07-cliname": ("ceos_alos2/sar_image/cli.py", 'target = cache_root / f"{path}.index"', 'target = cache_root / f"{path}.idx"', ["C07"]),
    "m-c07-order": ("ceos_alos2/sar_image/caching/__init__.py", "    if local.is_file():\n        return decode(local.read_text(), records_per_chunk=records_per_chunk)\n\n    if remote in mapper:", "    if local.is_file() and remote not in mapper:\n        return decode(local.read_text(), records_per_chunk=records_per_chunk)\n\n    if remote in mapper:", []),
    "m-c08-float": ("ceos_alos2/sar_image/caching/encoders.py", 'encoded = (obj - reference).astype("int64").tolist()', 'encoded = (obj - reference).astype("float64").astype("int64").tolist()', ["C08"]),
    "m-c08-tuple": ("ceos_alos2/sar_image/caching/encoders.py", 'return {"__type__": "tuple", "data": list(map(preprocess, data))}', "return list(map(preprocess, data))", ["C08"]),
    "m-c09-narrow": ("ceos_alos2/sar_image/caching/__init__.py", "    except json.JSONDecodeError as e:\n", "    except json.JSONDecodeError as e:\n        if 'Unterminated' in str(e):\n            raise\n", ["C09"]),
    "m-c10-mutate-options": ("ceos_alos2/xarray.py", "    root = io.open(path, **backend_options)", "    backend_options.setdefault('use_cache', True)\n    root = io.open(path, **backend_options)", ["C10"]),
    "m-c10-create-unasked": ("ceos_alos2/sar_image/__init__.py", "    if create_cache:\n        caching.create_cache", "    if create_cache or records_per_chunk == 1:\n        caching.create_cache", ["C10"]),
    "m-c11-reread": ("ceos_alos2/array.py", "                chunk = read_chunk(f, **chunk_info)\n", "                chunk = read_chunk(f, **chunk_info)\n                chunk = read_chunk(f, **chunk_info)\n", ["C11"]),
    "m-c11-wholefile": ("ceos_alos2/array.py", "def read_chunk(f, offset, size):\n    f.seek(offset)\n\n    return f.read(size)", "def read_chunk(f, offset, size):\n    f.seek(0)\n\n    return f.read()[offset:offset + size]", ["C11"]),
    "m-c13-scanlost": ("ceos_alos2/sar_image/__init__.py", "    parts = [polarization, scan_number]", "    parts = [polarization, scan_number if polarization != 'HV' else None]", ["C13", "C15"]),
    "m-c14-match": ("ceos_alos2/summary.py", "    match = entry_re.fullmatch(line)", "    match = entry_re.match(line)", ["C14"]),
    "m-c14-firsterror": ("ceos_alos2/summary.py", "        except ValueError as e:\n            errors[lineno] = e\n", "        except ValueError as e:\n            if len(errors) < 3:\n                errors[lineno] = e\n", ["C14"]),
    "m-c15-swapdir": ("ceos_alos2/decoders.py", 'observation_directions = {"L": "left looking", "R": "right looking"}', 'observation_directions = {"R": "left looking", "L": "right looking"}', ["C15"]),
    "m-c15-mode": ("ceos_alos2/decoders.py", '"WWD": "ScanSAR nominal 28MHz mode dual polarization",', '"WWD": "ScanSAR nominal 14MHz mode dual polarization",', ["C15"]),
    "m-c16-widths": ("ceos_alos2/volume_directory/structure.py", '"scene_id" / PaddedString(40),\n    "scene_location_id" / PaddedString(40),', '"scene_id" / PaddedString(38),\n    "scene_location_id" / PaddedString(42),', ["C16"]),
    "m-c16-rename": ("ceos_alos2/volume_directory/metadata.py", '"logical_volume_generating_agency": "creation_agency",\n        "logical_volume_generating_facility": "creation_facility",', '"logical_volume_generating_agency": "creation_facility",\n        "logical_volume_generating_facility": "creation_agency",', ["C16"]),
    "m-c17-doy": ("ceos_alos2/datatypes.py", 'days=obj["day_of_year"] - 1, milliseconds=obj["milliseconds"]', 'days=obj["day_of_year"] - (obj["day_of_year"] > 59), milliseconds=obj["milliseconds"]', ["C17", "C03"]),
    "m-c17-us": ("ceos_alos2/datatypes.py", "return truncated + datetime.timedelta(microseconds=obj)", "return truncated + datetime.timedelta(microseconds=obj - obj % 1000)", ["C17", "C03"]),
    "m-c18-nosizecheck": ("ceos_alos2/sar_image/io.py", "    if n_elements * element_size != len(content):", "    if False:", ["C18"]),
    "m-c20-spare": ("ceos_alos2/sar_leader/dataset_summary.py", '"spare5" / PaddedString(8),', '"extra5" / PaddedString(8),', ["C20", "C04"]),
    "m-c20-minus1": ("ceos_alos2/sar_image/metadata.py", '"number_of_burst_data": lambda v: v if v != -1 else [],', '"number_of_burst_data": lambda v: v if v not in (-1, 0) else [],', ["C03"]),
    "m-c20-blankint": ("ceos_alos2/datatypes.py", "        if not stripped:\n            return -1\n        return int(stripped)", "        if not stripped:\n            return 0\n        return int(stripped)", ["C20"]),
    "m-c19-sharedhandle": [
        ("ceos_alos2/array.py", '        with self.fs.open(self.url, mode="rb") as f:\n', '        f = _HANDLES.setdefault(self.url, None) or _HANDLES.__setitem__(self.url, self.fs.open(self.url, mode="rb")) or _HANDLES[self.url]\n        if True:\n'),
        ("ceos_alos2/array.py", 'raw_dtypes = {', '_HANDLES = {}\nraw_dtypes = {'),
        ("ceos_alos2/xarray.py", "        with self.lock:\n            return self.array[key]", "        return self.array[key]"),
        ["C19"],
    ],
    "m-c19-nolock-only": [("ceos_alos2/xarray.py", "        with self.lock:\n            return self.array[key]", "        return self.array[key]"), ["C19"]],
    "m-c19-lockleak": [("ceos_alos2/xarray.py", "        with self.lock:\n            return self.array[key]", "        self.lock.acquire()\n        result = self.array[key]\n        if key and isinstance(key[0], int):\n            return result\n        self.lock.release()\n        return result"), ["C19"]],
    "m-c12-dtype": ("ceos_alos2/xarray.py", "self.dtype = np.dtype(array.dtype)", "self.dtype = array.dtype", ["C12"]),
}


def baseline_counts(repo):
    cmd = ["/venv/bin/python", "-m", "pytest", "-q", "-p", "no:cacheprovider", "--timeout=900", "--continue-on-collection-errors", "-x", "--deselect", "ceos_alos2/tests/test_testing.py::test_diff_array", "-k", "not chunks1 and not chunks2"]
    r = subprocess.run(cmd, cwd=repo, capture_output=True, text=True)
    tail = r.stdout.strip().splitlines()[-1] if r.stdout.strip() else r.stderr[-300:]
    return r.returncode == 0, tail


def run_mutant(mid, suite=True, checks=None, tier="quick"):
    spec = MUTANTS[mid]
    if isinstance(spec, tuple):
        edits, props = [spec[:3]], spec[3]
    else:
        edits, props = list(spec[:-1]), spec[-1]
    scratch = pathlib.Path(tempfile.mkdtemp(prefix="vfmut-"))
    repo = scratch / "repo"
    try:
        shutil.copytree("/repo", repo, ignore=shutil.ignore_patterns(".git", "__pycache__", "*.egg-info"))
        for file, old, new in edits:
            path = repo / file
            text = path.read_text()
            if old not in text:
                return {"mutant": mid, "error": f"pattern not found in {file}"}
            path.write_text(text.replace(old, new, 1))
        result = {"mutant": mid, "expected": props}
        if suite:
            ok, tail = baseline_counts(repo)
            result["suite_passes"] = ok
            result["suite"] = tail
        for pid in checks or props or [p for p in sys.argv if p.startswith("C") and len(p) == 3]:
            env = dict(os.environ, VERIF_REPO=str(repo), VERIF_EVIDENCE_DIR=str(scratch / "evidence"), VERIF_REPLAY_DIR=str(scratch / "replays"))
            r = subprocess.run([str(VERIF / "check"), pid, "--tier", tier], capture_output=True, text=True, env=env, cwd=VERIF)
            result[pid] = {"exit": r.returncode, "violation": "VIOLATION" in r.stdout,
                           "first": next((l for l in r.stdout.splitlines() if "root cause" in l), "")[:300]}
        return result
    finally:
        shutil.rmtree(scratch, ignore_errors=True)


def main():
    args = sys.argv[1:]
    suite = "--no-suite" not in args
    args = [a for a in args if a != "--no-suite"]
    if "--list" in args:
        print("\n".join(MUTANTS))
        return
    ids = list(MUTANTS) if "--all" in args else args
    for mid in ids:
        print(json.dumps(run_mutant(mid, suite)), flush=True)


if __name__ == "__main__":
    main()
