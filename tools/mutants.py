"""Sensitivity harness: apply a small source mutation to a scratch copy of the repo, confirm the
repo's own suite still passes there, run the given checks with VERIF_REPO=<scratch> and report
whether each check raised a VIOLATION.  Scratch copies live under a mkdtemp dir and are removed.

usage: python tools/mutants.py [--no-suite] <mutant-id>... | --all | --list
"""
import json
import os
import pathlib
import shutil
import subprocess
import sys
import tempfile

VERIF = pathlib.Path(__file__).resolve().parent.parent

# id: (file, old, new, [properties expected to catch it])
MUTANTS = {
    "m-c01-endian": ("ceos_alos2/array.py", '"IU2": np.dtype(">u2")', '"IU2": np.dtype("<u2")', ["C01"]),
    "m-c01-realimag": ("ceos_alos2/array.py", 'data.real = raw["real"]\n        data.imag = raw["imag"]', 'data.real = raw["imag"]\n        data.imag = raw["real"]', ["C01"]),
    "m-c02-roworder": ("ceos_alos2/array.py", "    return list(get(list(selected_rows), list(enumerate(byte_ranges))))", "    return list(get(sorted(selected_rows), list(enumerate(byte_ranges))))", ["C02"]),
    "m-c04-swap": (
        "ceos_alos2/sar_leader/dataset_summary.py",
        '"ellipsoid_semimajor_axis" / Metadata(AsciiFloat(16), units="km"),\n    "ellipsoid_semiminor_axis" / Metadata(AsciiFloat(16), units="km"),',
        '"ellipsoid_semiminor_axis" / Metadata(AsciiFloat(16), units="km"),\n    "ellipsoid_semimajor_axis" / Metadata(AsciiFloat(16), units="km"),',
        ["C04"],
    ),
    "m-c04-factor": ("ceos_alos2/sar_leader/dataset_summary.py", "Factor(AsciiFloat(16), 1e24)", "Factor(AsciiFloat(16), 1e23)", ["C04"]),
    "m-c04-unit": ("ceos_alos2/sar_leader/platform_position.py", '"radial" / Metadata(AsciiFloat(16), units="m/s")', '"radial" / Metadata(AsciiFloat(16), units="m")', ["C04"]),
    "m-c04-width": (
        "ceos_alos2/sar_leader/dataset_summary.py",
        '"sensor_id_and_operation_mode" / PaddedString(32),\n    "orbit_number_or_flight_line_indicator" / AsciiInteger(8),',
        '"sensor_id_and_operation_mode" / PaddedString(34),\n    "orbit_number_or_flight_line_indicator" / AsciiInteger(6),',
        ["C04"],
    ),
    "m-c04-corner": ("ceos_alos2/sar_leader/map_projection.py", 'coordinate = ["top_left", "top_right", "bottom_right", "bottom_left"]', 'coordinate = ["top_left", "top_right", "bottom_left", "bottom_right"]', ["C04"]),
    "m-c06-lastchunk": ("ceos_alos2/sar_image/io.py", "if records_per_chunk * (index + 1) <= n_records", "if records_per_chunk * (index + 1) < n_records", ["C06", "C01", "C18"]),
    "m-c06-norm": ("ceos_alos2/array.py", "if chunksize in (None, -1) or chunksize > dim_size:", "if chunksize in (None, -1) or chunksize >= dim_size - 1:", ["C06"]),
    "m-c19-sharedhandle": [
        ("ceos_alos2/array.py", '        with self.fs.open(self.url, mode="rb") as f:\n', '        f = _HANDLES.setdefault(self.url, None) or _HANDLES.__setitem__(self.url, self.fs.open(self.url, mode="rb")) or _HANDLES[self.url]\n        if True:\n'),
        ("ceos_alos2/array.py", 'raw_dtypes = {', '_HANDLES = {}\nraw_dtypes = {'),
        ("ceos_alos2/xarray.py", "        with self.lock:\n            return self.array[key]", "        return self.array[key]"),
        ["C19"],
    ],
    "m-c19-nolock-only": [("ceos_alos2/xarray.py", "        with self.lock:\n            return self.array[key]", "        return self.array[key]"), []],
    "m-c19-lockleak": [("ceos_alos2/xarray.py", "        with self.lock:\n            return self.array[key]", "        self.lock.acquire()\n        result = self.array[key]\n        if key and isinstance(key[0], int):\n            return result\n        self.lock.release()\n        return result"), ["C19"]],
    "m-c12-dtype": ("ceos_alos2/xarray.py", "self.dtype = np.dtype(array.dtype)", "self.dtype = array.dtype", ["C12"]),
}


def baseline_counts(repo):
    cmd = ["/venv/bin/python", "-m", "pytest", "-q", "-p", "no:cacheprovider", "--timeout=900", "--continue-on-collection-errors", "-x", "--deselect", "ceos_alos2/tests/test_testing.py::test_diff_array", "-k", "not chunks1 and not chunks2"]
    r = subprocess.run(cmd, cwd=repo, capture_output=True, text=True)
    tail = r.stdout.strip().splitlines()[-1] if r.stdout.strip() else r.stderr[-300:]
    return r.returncode == 0, tail


def run_mutant(mid, suite=True, checks=None, tier="quick"):
    spec = MUTANTS[mid]
    if isinstance(spec, tuple):
        edits, props = [spec[:3]], spec[3]
    else:
        edits, props = list(spec[:-1]), spec[-1]
    scratch = pathlib.Path(tempfile.mkdtemp(prefix="vfmut-"))
    repo = scratch / "repo"
    try:
        shutil.copytree("/repo", repo, ignore=shutil.ignore_patterns(".git", "__pycache__", "*.egg-info"))
        for file, old, new in edits:
            path = repo / file
            text = path.read_text()
            if old not in text:
                return {"mutant": mid, "error": f"pattern not found in {file}"}
            path.write_text(text.replace(old, new, 1))
        result = {"mutant": mid, "expected": props}
        if suite:
            ok, tail = baseline_counts(repo)
            result["suite_passes"] = ok
            result["suite"] = tail
        for pid in checks or props or [p for p in sys.argv if p.startswith("C") and len(p) == 3]:
            env = dict(os.environ, VERIF_REPO=str(repo))
            r = subprocess.run([str(VERIF / "check"), pid, "--tier", tier], capture_output=True, text=True, env=env, cwd=VERIF)
            result[pid] = {"exit": r.returncode, "violation": "VIOLATION" in r.stdout,
                           "first": next((l for l in r.stdout.splitlines() if "root cause" in l), "")[:300]}
        return result
    finally:
        shutil.rmtree(scratch, ignore_errors=True)


def main():
    args = sys.argv[1:]
    suite = "--no-suite" not in args
    args = [a for a in args if a != "--no-suite"]
    if "--list" in args:
        print("\n".join(MUTANTS))
        return
    ids = list(MUTANTS) if "--all" in args else args
    for mid in ids:
        # evidence files are rewritten by mutant runs: keep the real ones
        backup = pathlib.Path(tempfile.mkdtemp(prefix="vfev-"))
        shutil.copytree(VERIF / "evidence", backup / "evidence")
        try:
            print(json.dumps(run_mutant(mid, suite)), flush=True)
        finally:
            shutil.rmtree(VERIF / "evidence")
            shutil.copytree(backup / "evidence", VERIF / "evidence")
            shutil.rmtree(backup)


if __name__ == "__main__":
    main()
