"""Import a seeded change delivered by a sub-agent (/tmp/seedout/<id>/{patch.diff,demo.py,notes.json})
into seeded/<id>/ (patch.diff, demo.py, meta.json).  usage: python tools/import_seed.py <id> [<id> ...]"""
import json
import pathlib
import shutil
import sys

VERIF = pathlib.Path(__file__).resolve().parent.parent
SRC = pathlib.Path("/tmp/seedout")

for sid in sys.argv[1:]:
    src = SRC / sid
    dst = VERIF / "seeded" / sid
    dst.mkdir(parents=True, exist_ok=True)
    shutil.copy(src / "patch.diff", dst / "patch.diff")
    shutil.copy(src / "demo.py", dst / "demo.py")
    notes = json.loads((src / "notes.json").read_text())
    meta = {
        "id": sid,
        "property": sid[:3],
        "breaks": notes.get("breaks"),
        "needs": notes.get("needs"),
        "change": notes.get("change"),
        "origin": "written by an independent sub-agent that was given only the property text and a scratch git worktree of /repo (nothing from /verif)",
        "agent_reported": {k: notes.get(k) for k in ("suite", "demo_with", "demo_without")},
    }
    (dst / "meta.json").write_text(json.dumps(meta, indent=1) + "\n")
    print("imported", sid)
