"""Bootstrap tool (provenance only; never run by a check).

Differential tracing of the *pinned* reader: every field of every record is changed on its own
and the set of output leaves that change is recorded (leaf key + element index).  The result
(layout/exposure_*.json) was hand audited against the docs / tests (names, units, groupings) and
is FROZEN: it is the exposure column of the layout tables that DESIGN.md section 2.2 describes.

usage: PYTHONPATH=/verif:/repo XDG_CACHE_HOME=/tmp/x /venv/bin/python tools/bootstrap_exposure.py
"""

import json
import pathlib
import random
import re
import sys

import numpy as np

from vf import harness
from vf.ceosgen import layout, product

OUT = pathlib.Path(__file__).resolve().parent.parent / "layout"


def generic(path):
    return "/".join("*" if p.isdigit() else p for p in path.split("/"))


def indices(path):
    return [int(p) for p in path.split("/") if p.isdigit()]


def changed_leaves(base, new):
    out = []
    keys = list(dict.fromkeys(list(base) + list(new)))
    for key in keys:
        a, b = base.get(key), new.get(key)
        if a is None or b is None:
            out.append({"key": key, "index": None, "appears": a is None})
            continue
        if isinstance(a, harness.VarLeaf):
            aspects = harness.varleaf_diff(a, b)
            if not aspects:
                continue
            if aspects == ["values"] and a.values.shape == b.values.shape:
                if a.values.dtype.kind == "O":
                    la, lb = a.values.ravel().tolist(), b.values.ravel().tolist()
                    flat = [i for i, (x, y) in enumerate(zip(la, lb)) if not harness.obj_equal(x, y)]
                    idx = [list(int(v) for v in np.unravel_index(i, a.values.shape)) for i in flat]
                else:
                    av, bv = a.values, b.values
                    if av.dtype.kind in "fc":
                        neq = ~((av == bv) | (np.isnan(av) & np.isnan(bv)))
                    else:
                        neq = av != bv
                    idx = [list(int(v) for v in i) for i in np.argwhere(neq)]
                out.append({"key": key, "index": idx})
            else:
                out.append({"key": key, "index": None, "aspects": aspects})
        elif not harness.obj_equal(a, b):
            out.append({"key": key, "index": None})
    return out


def symbolic_index(idx_list, path_indices):
    """express the changed element index in terms of the array indices of the field path"""
    if idx_list is None:
        return None
    if len(idx_list) != 1:
        return {"many": idx_list}
    idx = idx_list[0]
    sym = []
    for v in idx:
        hit = [f"${k}" for k, p in enumerate(path_indices) if p == v]
        sym.append(hit[-1] if hit else v)
    return sym


def different_value(filler_factory, leaf, tries=50):
    for t in range(tries):
        filler = filler_factory(t)
        try:
            v = filler(leaf.path, leaf.node, leaf.width, leaf.codec)
        except KeyError:
            return None
        if v is None:
            continue
        enc_new = layout.encode_leaf(leaf.codec, leaf.width, v)
        enc_old = layout.encode_leaf(leaf.codec, leaf.width, leaf.value)
        if enc_new == enc_old:
            continue
        # the *meaning* must differ too (not only the padding)
        if leaf.codec in layout.ASCII_CODECS and enc_new.strip() == enc_old.strip():
            continue
        if leaf.codec == "A-float":
            try:
                if float(enc_new) == float(enc_old):
                    continue
            except ValueError:
                pass
        return v
    return None


SPECIAL_VALUES = {
    # required / datetime fields get a hand-made alternative value
    "dataset_summary/scene_center_time": "20151103112233444".ljust(32),
    "platform_position/datetime_of_first_point/date": "2016 02 29".ljust(12),
    "platform_position/datetime_of_first_point/day_of_year": " 123",
    "platform_position/datetime_of_first_point/seconds_of_day": "12345.678".rjust(22),
    "platform_position/occurrence_flag_of_a_leap_second": None,  # toggled below
    "facility_related_data_5/prf_switching_flag": None,
    "volume_descriptor/logical_volume_creation_datetime": "2016022913141599",
}


def product_convert(leaf):
    from vf.ceosgen import model

    return model.convert(leaf)


def toggle(text):
    v = int(text)
    return str(1 - v if v in (0, 1) else 0).rjust(len(text))


def trace(build, parse, required, table_name, label):
    data, leaves = build({})
    base = parse(data)
    base_values = {leaf.path: leaf.value for leaf in leaves}
    fields = {}
    for n, leaf in enumerate(leaves):
        cls = product.leaf_class(leaf.path, leaf.node, required)

        def factory(t, _n=n):
            return product.Filler(random.Random(f"{label}/{_n}/{t}"), "decoy", (), table=table_name)

        if leaf.path in SPECIAL_VALUES or generic(leaf.path) in SPECIAL_VALUES:
            v = SPECIAL_VALUES.get(leaf.path, SPECIAL_VALUES.get(generic(leaf.path)))
            if v is None:
                v = toggle(leaf.value if isinstance(leaf.value, str) else leaf.value.decode())
        elif cls == "required":
            continue  # counts / lengths: framing, no exposure of their own
        elif cls == "preamble":
            if leaf.path.endswith("record_length") or leaf.path.endswith("record_type"):
                continue
            v = (leaf.value + 1) % 200
        elif leaf.codec == "ydms":
            v = dict(leaf.value, ms=(leaf.value["ms"] + 1234) % 86_400_000)
        elif leaf.codec == "ydus":
            v = leaf.value + 777
        elif cls == "enum" and len(leaf.node["enum"]) == 1:
            v = "7".ljust(leaf.width)  # single-code table: any other numeric code
        elif cls == "enum":
            current = product_convert(leaf)
            code = next(c for lbl, c in leaf.node["enum"].items() if lbl != current)
            if leaf.codec in layout.BIN_FMT:
                v = code
            else:
                v = str(code).rjust(leaf.width) if leaf.codec == "A-int" else str(code).ljust(leaf.width)
        elif leaf.path.endswith("_error") and leaf.codec == "A-int" and leaf.path.startswith("attitude/"):
            cur = int(leaf.value if isinstance(leaf.value, str) else leaf.value.decode())
            v = ("0" if cur != 0 else "1").rjust(leaf.width)
        else:
            v = different_value(factory, leaf)
        if v is None:
            print("  no alternative value for", leaf.path, file=sys.stderr)
            continue
        try:
            data2, _ = build({**base_values, leaf.path: v})
            new = parse(data2)
        except Exception as e:  # noqa: BLE001
            print("  variant failed", leaf.path, type(e).__name__, e, file=sys.stderr)
            continue
        ch = changed_leaves(base, new)
        pidx = indices(leaf.path)
        entry = sorted(
            ({"key": c["key"], "index": symbolic_index(c.get("index"), pidx), **({"aspects": c["aspects"]} if "aspects" in c else {})} for c in ch),
            key=lambda e: e["key"],
        )
        g = generic(leaf.path)
        rec = fields.setdefault(g, {"class": cls, "codec": leaf.codec, "exposures": entry, "seen": 0})
        rec["seen"] += 1
        if json.dumps(rec["exposures"], sort_keys=True) != json.dumps(entry, sort_keys=True):
            rec.setdefault("variants", []).append({"path": leaf.path, "exposures": entry})
    return base, fields


def jdefault(o):
    if isinstance(o, complex):
        return {"__complex__": [o.real, o.imag]}
    if isinstance(o, np.generic):
        return o.item()
    return repr(o)


def jsonable(v):
    if isinstance(v, harness.VarLeaf):
        vals = v.values
        return {
            "dims": list(v.dims),
            "dtype": str(v.dtype),
            "shape": list(v.shape),
            "is_coord": v.is_coord,
            "values": (vals.astype(str).tolist() if vals.dtype.kind in "Mm" else vals.tolist())
            if vals is not None and vals.dtype.kind != "O"
            else None,
        }
    if isinstance(v, (np.generic,)):
        return v.item()
    if isinstance(v, tuple):
        return {"__tuple__": [jsonable(x) for x in v]}
    if isinstance(v, list):
        return [jsonable(x) for x in v]
    return v


def main():
    import ceos_alos2.xarray as cx
    from ceos_alos2.hierarchy import Group
    from ceos_alos2.sar_leader import open_sar_leader
    from ceos_alos2.volume_directory import open_volume_directory

    result = {}

    # ---------------- leader: one table per projection designator ----------------
    only = sys.argv[1:] or product.DESIGNATORS + ["volume"]
    for designator in [d for d in product.DESIGNATORS if d in only]:
        params = product.default_leader_params()
        params.update(map_projection=True, designator=designator, n_att=3, n_channels=3)

        def build(overrides, _p=params, _d=designator):
            return product.build_leader(_p, random.Random("trace-" + _d), "decoy", overrides)

        def parse(data):
            group = open_sar_leader({"LED": data}, "LED")
            root = Group(path="/", url=None, data={"metadata": group}, attrs={})
            return harness.flatten(cx.to_datatree(root))

        base, fields = trace(build, parse, product.LEADER_REQUIRED, "sar_leader", designator)
        result[f"leader:{designator.split('-')[0].lower()}"] = {
            "fields": fields,
            "base": {k: jsonable(v) for k, v in base.items()},
        }
        print("leader", designator, len(fields), "generic fields")

    if "volume" not in only:
        (OUT / f"exposure_{only[0].split('-')[0].lower()}.json").write_text(json.dumps(result, indent=1, ensure_ascii=False, default=jdefault) + "\n")
        return
    # ---------------- volume directory ----------------
    vparams = {"n_file_pointers": 3, "instant": product.default_leader_params()["instant"]}

    def vbuild(overrides):
        return product.build_volume(vparams, random.Random("trace-vol"), "decoy", overrides)

    def vparse(data):
        group = open_volume_directory({"VOL": data}, "VOL")
        root = Group(path="/", url=None, data={}, attrs=group.attrs)
        return harness.flatten(cx.to_datatree(root))

    base, fields = trace(vbuild, vparse, product.VOLUME_REQUIRED, "volume_directory", "vol")
    result["volume"] = {"fields": fields, "base": {k: jsonable(v) for k, v in base.items()}}
    print("volume", len(fields))

    (OUT / "exposure_volume.json").write_text(json.dumps(result, indent=1, ensure_ascii=False, default=jdefault) + "\n")


if __name__ == "__main__":
    main()
