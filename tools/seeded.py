"""Evaluate a seeded breaking change (seeded/<id>/patch.diff + demo.py) against the checks.

A scratch copy of /repo is made under mkdtemp (removed afterwards), the patch is applied there,
the repo's own suite and the demonstration are run with and without the patch, and the given
checks (default: all) are run with VERIF_REPO=<scratch>.  Results are printed as JSON and merged
into seeded/<id>/meta.json under "evaluation".

usage: python tools/seeded.py <id> [--checks C01,C02] [--tier quick]
"""
import json
import os
import pathlib
import shutil
import subprocess
import sys
import tempfile

VERIF = pathlib.Path(__file__).resolve().parent.parent
ALL = [f"C{i:02d}" for i in range(1, 21)]


def suite(repo):
    cmd = ["/venv/bin/python", "-m", "pytest", "-q", "-p", "no:cacheprovider", "--timeout=900", "--continue-on-collection-errors"]
    r = subprocess.run(cmd, cwd=repo, capture_output=True, text=True, env=dict(os.environ, PYTHONPATH=str(repo)))
    lines = r.stdout.strip().splitlines()
    return lines[-1] if lines else r.stderr[-200:]


def demo(script, repo):
    r = subprocess.run(["/venv/bin/python", str(script)], capture_output=True, text=True, cwd=script.parent,
                       env=dict(os.environ, PYTHONPATH=str(repo), XDG_CACHE_HOME=tempfile.mkdtemp(prefix="vfdemo-", dir=script.parent)), timeout=600)
    return r.returncode, (r.stdout + r.stderr)[-300:]


def main():
    sid = sys.argv[1]
    checks = ALL
    tier = "quick"
    for i, a in enumerate(sys.argv):
        if a == "--checks":
            checks = sys.argv[i + 1].split(",")
        if a == "--tier":
            tier = sys.argv[i + 1]
    sdir = VERIF / "seeded" / sid
    scratch = pathlib.Path(tempfile.mkdtemp(prefix="vfseed-"))
    repo = scratch / "repo"
    result = {"tier": tier}
    try:
        shutil.copytree("/repo", repo, ignore=shutil.ignore_patterns(".git", "__pycache__", "*.egg-info"))
        r = subprocess.run(["git", "apply", "--whitespace=nowarn", str(sdir / "patch.diff")], cwd=repo, capture_output=True, text=True)
        if r.returncode != 0:
            print(json.dumps({"id": sid, "error": "patch does not apply: " + r.stderr[-300:]}))
            return
        result["suite_with_patch"] = suite(repo)
        demo_copy = scratch / "demo.py"
        shutil.copy(sdir / "demo.py", demo_copy)
        rc, out = demo(demo_copy, repo)
        result["demo_with_patch"] = {"exit": rc, "tail": out[-160:]}
        rc, out = demo(demo_copy, pathlib.Path("/repo"))
        result["demo_without_patch"] = {"exit": rc, "tail": out[-160:]}
        result["checks"] = {}

        def one(pid):
            env = dict(os.environ, VERIF_REPO=str(repo), VERIF_EVIDENCE_DIR=str(scratch / "evidence"), VERIF_REPLAY_DIR=str(scratch / "replays"))
            try:
                r = subprocess.run([str(VERIF / "check"), pid, "--tier", tier], capture_output=True, text=True, env=env, cwd=VERIF, timeout=3600)
            except subprocess.TimeoutExpired:
                return pid, {"exit": 2, "violation": False, "first": "check did not finish within 3600 s"}
            first = next((l.strip() for l in r.stdout.splitlines() if "root cause" in l), "")
            return pid, {"exit": r.returncode, "violation": "VIOLATION" in r.stdout, "first": first[:220]}

        import concurrent.futures

        with concurrent.futures.ThreadPoolExecutor(max_workers=int(os.environ.get("SEEDED_PARALLEL", "4"))) as ex:
            for pid, res in ex.map(one, checks):
                result["checks"][pid] = res
        result["caught_by"] = [p for p, v in result["checks"].items() if v["violation"]]
        result["harness_errors"] = [p for p, v in result["checks"].items() if v["exit"] == 2]
    finally:
        shutil.rmtree(scratch, ignore_errors=True)
    meta_path = sdir / "meta.json"
    meta = json.loads(meta_path.read_text()) if meta_path.exists() else {}
    meta["evaluation"] = result
    meta_path.write_text(json.dumps(meta, indent=1) + "\n")
    print(json.dumps({"id": sid, **{k: result[k] for k in ("suite_with_patch", "demo_with_patch", "demo_without_patch", "caught_by", "harness_errors")}}))


if __name__ == "__main__":
    main()
