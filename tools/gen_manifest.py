"""Regenerate MANIFEST.json from the property modules (run by hand after adding a check)."""
import importlib
import json
import pathlib
import sys

VERIF = pathlib.Path(__file__).resolve().parent.parent
sys.path.insert(0, str(VERIF))
sys.path.insert(0, "/repo")

ALL = [json.loads(line)["id"] for line in (VERIF / "properties.jsonl").read_text().splitlines() if line.strip()]

NOT_YET = "check not built yet in this round (planned in DESIGN.md section 5); not claimed until it exists"


def main():
    checks = []
    not_applicable = []
    for pid in ALL:
        path = VERIF / "vf" / "props" / f"{pid.lower()}.py"
        if not path.exists():
            not_applicable.append({"property_id": pid, "reason": NOT_YET})
            continue
        mod = importlib.import_module(f"vf.props.{pid.lower()}")
        if getattr(mod, "NOT_CLAIMED", None):
            not_applicable.append({"property_id": pid, "reason": mod.NOT_CLAIMED})
            continue
        checks.append(
            {
                "property_id": pid,
                "quick_cmd": f"./check {pid} --tier quick",
                "thorough_cmd": f"./check {pid} --tier thorough",
                "evidence_file": f"evidence/{pid}.json",
                "replay_cmd_template": f"./check {pid} --replay {{path}}",
                "engine": "vf",
                "level_claimed": {
                    "category": mod.LEVEL,
                    "text": mod.LEVEL_TEXT,
                    "design_ref": f"DESIGN.md section 5, {pid}",
                },
                "level_note": mod.LEVEL_NOTE,
                "technique": mod.TECHNIQUE,
            }
        )
    manifest = {
        "version": 1,
        "setup_cmd": "./setup.sh",
        "hooks": {
            "guard": "CEOS_ALOS2_VERIF",
            "enable": "no hooks: the checks import the unmodified working tree of /repo (VERIF_REPO) - pure Python, no build step",
            "baseline_off_cmd": "cd /repo && /venv/bin/python -m pytest -ra -q -p no:cacheprovider --timeout=900 --continue-on-collection-errors",
            "source_commits": [],
            "add_only": True,
        },
        "engines": [
            {
                "name": "vf",
                "path": "vf/",
                "serves_properties": [c["property_id"] for c in checks],
                "kind_free_text": "property-based testing / fuzzing: independent CEOS encoder (ceosgen, frozen layout tables) + Hypothesis / exhaustive enumeration + explicit oracles (reference model, round trip, metamorphic, history invariants), instrumented fsspec filesystem (vtrace)",
            }
        ],
        "checks": checks,
        "not_applicable": not_applicable,
        "notes": "All checks: ./check <ID> --tier quick|thorough, ./check <ID> --replay <file>; exit 2 = harness error. Known findings: known_findings.json (never written at run time).",
    }
    (VERIF / "MANIFEST.json").write_text(json.dumps(manifest, indent=1) + "\n")
    print("checks:", [c["property_id"] for c in checks])
    print("not_applicable:", [c["property_id"] for c in not_applicable])


main()
