"""Evaluate a property-preserving change (preserving/<id>/patch.diff, written by an independent
sub-agent as an ordinary maintainer's refactor / optimisation) against ALL checks: none may raise
an alarm.  A scratch copy of /repo is made under mkdtemp (removed afterwards).

usage: python tools/preserving.py <id> [--import] [--checks C01,C02] [--tier quick]
  --import: first copy /tmp/seedout/<id>/{patch.diff,notes.json} into preserving/<id>/
"""
import concurrent.futures
import json
import os
import pathlib
import shutil
import subprocess
import sys
import tempfile

VERIF = pathlib.Path(__file__).resolve().parent.parent
ALL = [f"C{i:02d}" for i in range(1, 21)]


def suite(repo):
    cmd = ["/venv/bin/python", "-m", "pytest", "-q", "-p", "no:cacheprovider", "--timeout=900", "--continue-on-collection-errors"]
    r = subprocess.run(cmd, cwd=repo, capture_output=True, text=True, env=dict(os.environ, PYTHONPATH=str(repo)))
    lines = r.stdout.strip().splitlines()
    return lines[-1] if lines else r.stderr[-200:]


def main():
    sid = sys.argv[1]
    checks, tier = ALL, "quick"
    for i, a in enumerate(sys.argv):
        if a == "--checks":
            checks = sys.argv[i + 1].split(",")
        if a == "--tier":
            tier = sys.argv[i + 1]
    sdir = VERIF / "preserving" / sid
    if "--import" in sys.argv:
        src = pathlib.Path("/tmp/seedout") / sid
        sdir.mkdir(parents=True, exist_ok=True)
        shutil.copy(src / "patch.diff", sdir / "patch.diff")
        notes = json.loads((src / "notes.json").read_text())
        (sdir / "meta.json").write_text(json.dumps({
            "id": sid, "kind": "property-preserving change (must not raise an alarm)",
            "origin": "written by an independent sub-agent playing a maintainer; it saw the property texts and a scratch worktree only",
            "changes": notes.get("changes"), "agent_reported_suite": notes.get("suite")}, indent=1) + "\n")
    scratch = pathlib.Path(tempfile.mkdtemp(prefix="vfkeep-"))
    repo = scratch / "repo"
    result = {"tier": tier}
    try:
        shutil.copytree("/repo", repo, ignore=shutil.ignore_patterns(".git", "__pycache__", "*.egg-info"))
        r = subprocess.run(["git", "apply", "--whitespace=nowarn", str(sdir / "patch.diff")], cwd=repo, capture_output=True, text=True)
        if r.returncode != 0:
            print(json.dumps({"id": sid, "error": "patch does not apply: " + r.stderr[-300:]}))
            return
        result["suite_with_patch"] = suite(repo)

        def one(pid):
            env = dict(os.environ, VERIF_REPO=str(repo), VERIF_EVIDENCE_DIR=str(scratch / "evidence"), VERIF_REPLAY_DIR=str(scratch / "replays"))
            try:
                r = subprocess.run([str(VERIF / "check"), pid, "--tier", tier], capture_output=True, text=True, env=env, cwd=VERIF, timeout=3600)
            except subprocess.TimeoutExpired:
                return pid, {"exit": 2, "violation": False, "first": "check did not finish within 3600 s"}
            first = next((l.strip() for l in r.stdout.splitlines() if "root cause" in l or "HARNESS-ERROR" in l), "")
            return pid, {"exit": r.returncode, "violation": "VIOLATION" in r.stdout, "first": first[:300]}

        result["checks"] = {}
        with concurrent.futures.ThreadPoolExecutor(max_workers=int(os.environ.get("SEEDED_PARALLEL", "4"))) as ex:
            for pid, res in ex.map(one, checks):
                result["checks"][pid] = res
        result["alarms"] = {p: v["first"] for p, v in result["checks"].items() if v["violation"]}
        result["harness_errors"] = {p: v["first"] for p, v in result["checks"].items() if v["exit"] == 2}
        # keep the replay files of alarms for the analysis
        if result["alarms"] and (scratch / "replays").exists():
            keep = pathlib.Path("/tmp/keep-replays") / sid
            shutil.rmtree(keep, ignore_errors=True)
            shutil.copytree(scratch / "replays", keep)
    finally:
        shutil.rmtree(scratch, ignore_errors=True)
    meta_path = sdir / "meta.json"
    meta = json.loads(meta_path.read_text()) if meta_path.exists() else {"id": sid}
    meta["evaluation"] = result
    meta_path.write_text(json.dumps(meta, indent=1) + "\n")
    print(json.dumps({"id": sid, "suite": result.get("suite_with_patch"), "alarms": result.get("alarms"), "harness_errors": result.get("harness_errors")}, indent=1))


if __name__ == "__main__":
    main()
